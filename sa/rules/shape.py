"""Tree-shaping rules [C03 C09 C19].

R-KEEP-PRED        the places that decide whether a symbol stays in the tree agree (truth tables over the
                   atoms keep_all_tokens, is_term, filter_out, name starts with '_').
R-PREFIX-PROTOCOL  generated helper names carry a prefix that satisfies the predicate their consumer tests
                   and that user names cannot have.
R-AMBIG-INDEX      the per-rule wrapper chain is applied in the order the index computations assume.
"""
from __future__ import annotations

import ast
import itertools
from typing import Dict, List, Optional, Set, Tuple

from ..model import Repo, ClassInfo, FuncInfo, AnalysisError, norm, parent, ancestors, enclosing_stmt, const_str
from ..report import Ctx, RuleResult
from ..exprs import call_args_by_name, has_pat, find_pat

ATOMS = ('K', 'T', 'F', 'U')


class Unknown(Exception):
    pass


def _ev(e: ast.AST, env: Dict[str, bool], sym: str, extra: Dict[str, str]) -> bool:
    """Evaluate a small boolean expression over the atoms.  `extra` maps normalised sub-expressions to atom formulas."""
    t = norm(e)
    if t in extra:
        return _ev(ast.parse(extra[t], mode='eval').body, env, sym, {})
    if isinstance(e, ast.Name) and e.id in env:
        return env[e.id]
    if isinstance(e, ast.Constant) and isinstance(e.value, bool):
        return e.value
    if isinstance(e, ast.BoolOp):
        vals = [_ev(v, env, sym, extra) for v in e.values]
        return all(vals) if isinstance(e.op, ast.And) else any(vals)
    if isinstance(e, ast.UnaryOp) and isinstance(e.op, ast.Not):
        return not _ev(e.operand, env, sym, extra)
    if isinstance(e, ast.Attribute):
        if e.attr == 'keep_all_tokens':
            return env['K']
        if e.attr == 'is_term':
            return env['T']
        if e.attr == 'filter_out':
            return env['F']
    if isinstance(e, ast.Call):
        fn = norm(e.func)
        if fn == 'isinstance' and len(e.args) == 2:
            cls = norm(e.args[1])
            if cls in ('Terminal', 'T'):
                return env['T']
            if cls in ('NonTerminal', 'NT'):
                return not env['T']
        if fn.endswith('.startswith') and e.args and const_str(e.args[0]) == '_':
            return env['U']
        if fn == '_should_expand':
            return (not env['T']) and env['U']
    raise Unknown(t)


def _table(e: ast.AST, extra: Optional[Dict[str, str]] = None) -> Dict[Tuple[bool, ...], bool]:
    out = {}
    for vals in itertools.product([False, True], repeat=4):
        env = dict(zip(ATOMS, vals))
        env['keep_all_tokens'] = env['K']
        out[vals] = _ev(e, env, 'sym', extra or {})
    return out


def run_keep(ctx: Ctx) -> RuleResult:
    repo = ctx.repo
    res = RuleResult('R-KEEP-PRED', 'the predicates deciding whether a symbol stays in the tree agree on terminals')
    # (a) child filter
    mcf = repo.func('lark.parse_tree_builder:maybe_create_child_filter')
    conds = [n.test for n in mcf.body_nodes() if isinstance(n, ast.If) and 'filter_out' in norm(n.test)]
    if len(conds) != 1:
        raise AnalysisError('R-KEEP-PRED: keep test of maybe_create_child_filter not found')
    # (c) FindRuleSize
    frs = repo.func('lark.load_grammar:FindRuleSize._will_not_get_removed')
    # combine its if-chain into one formula: (NT and ret1) or (T and ret2)
    parts = []
    for n in frs.node.body:
        if isinstance(n, ast.If) and len(n.body) == 1 and isinstance(n.body[0], ast.Return):
            parts.append((n.test, n.body[0].value))
    # (d) tree matcher
    idt = repo.func('lark.tree_matcher:is_discarded_terminal')
    rets = [n.value for n in idt.body_nodes() if isinstance(n, ast.Return)]
    # (b) ambiguous expander
    mae = repo.func('lark.parse_tree_builder:maybe_create_ambiguous_expander')
    comps = [n for n in mae.body_nodes() if isinstance(n, ast.ListComp)]
    try:
        ta = _table(conds[0])
        ok_shape = True
    except Unknown as u:
        res.ob(mcf.loc(), 'keep predicate of the child filter is over the known atoms', False)
        res.finding(mcf, conds[0], 'the keep predicate uses something this rule cannot interpret: %s' % u, construct='keep:atoms')
        return res
    site_a = '%s %s' % (mcf.loc(), mcf.qual)
    # reference semantics for terminals: kept iff K or not F; non-terminals always kept by the filter
    ok = all(ta[v] == ((v[0] or not v[2]) if v[1] else True) for v in ta)
    res.ob(site_a, 'child filter keeps: terminal iff keep_all_tokens or not filter_out; every non-terminal', ok)
    if not ok:
        bad = [dict(zip(ATOMS, v)) for v in ta if ta[v] != ((v[0] or not v[2]) if v[1] else True)][:2]
        res.finding(mcf, conds[0], 'the child filter\'s keep predicate deviates from "terminal kept iff keep_all_tokens or not filter_out" '
                    'at %s' % bad, construct='keep:child-filter')
    # (c)
    site_c = '%s %s' % (frs.loc(), frs.qual)
    try:
        okc = True
        for v in itertools.product([False, True], repeat=4):
            env = dict(zip(ATOMS, v))
            val = None
            for test, ret in parts:
                if _ev(test, env, 'sym', {}):
                    val = _ev(ret, env, 'sym', {'self.keep_all_tokens': 'K'})
                    break
            if val is None:
                continue
            if v[1]:
                okc = okc and val == ta[v]
            else:
                okc = okc and val == (not v[3])     # inlined rules contribute their own children, not one slot
        res.ob(site_c, 'placeholder sizing counts a terminal iff the child filter keeps it (and a rule iff it is not inlined)', okc)
        if not okc:
            res.finding(frs, frs.node, 'FindRuleSize counts kept symbols differently from the child filter: the number of None '
                        'placeholders for an unmatched [...] no longer equals the number of symbols its longest alternative keeps',
                        construct='keep:find-rule-size')
    except Unknown as u:
        res.ob(site_c, 'placeholder sizing predicate is over the known atoms', False)
        res.finding(frs, frs.node, 'cannot interpret %s' % u, construct='keep:find-rule-size-atoms')
    # (d)
    site_d = '%s %s' % (idt.loc(), idt.qual)
    try:
        td = _table(rets[0])
        okd = all(td[v] == (not ta[(False,) + v[1:]]) for v in td if v[1])  # discarded == not kept at K=False
        okd = okd and all(not td[v] for v in td if not v[1])
        res.ob(site_d, 'the reconstructor discards exactly the terminals the child filter drops (keep_all_tokens off)', okd)
        if not okd:
            res.finding(idt, idt.node, 'is_discarded_terminal disagrees with the tree builder about which terminals are filtered',
                        construct='keep:tree-matcher')
    except Unknown as u:
        res.ob(site_d, 'is_discarded_terminal is over the known atoms', False)
        res.finding(idt, idt.node, 'cannot interpret %s' % u, construct='keep:tree-matcher-atoms')
    # (b) the expander's index predicate: K or (kept and should_expand)
    site_b = '%s %s' % (mae.loc(), mae.qual)
    okb = len(comps) == 1 and len(comps[0].generators[0].ifs) == 1
    if okb:
        try:
            tb = _table(comps[0].generators[0].ifs[0])
            okb = all(tb[v] == (v[0] or (ta[(False,) + v[1:]] and (not v[1]) and v[3])) for v in tb)
        except Unknown:
            okb = False
    res.ob(site_b, 'ambiguity is lifted through exactly the kept, inlined (_rule) children (all under keep_all_tokens)', okb)
    if not okb:
        res.finding(mae, mae.node, 'the ambiguous expander\'s index predicate no longer matches the child filter\'s notion of kept/inlined',
                    construct='keep:ambig-expander')
    # normalisation performed by Grammar.compile: filter_out := False under keep_all_tokens
    gc = repo.func('lark.load_grammar:Grammar.compile')
    okn = False
    for n in gc.body_nodes():
        if isinstance(n, ast.If) and 'keep_all_tokens' in norm(n.test) and 'is_term' in norm(n.test):
            if any(isinstance(s, ast.Assign) and norm(s.targets[0]).endswith('.filter_out') and isinstance(s.value, ast.Constant)
                   and s.value.value is False for s in ast.walk(n)):
                okn = True
    res.ob('%s %s' % (gc.loc(), gc.qual), 'rules marked ! get filter_out = False on their terminals', okn)
    if not okn:
        res.finding(gc, gc.node, 'Grammar.compile no longer clears filter_out for terminals of keep_all_tokens rules', construct='keep:normalise')
    # producers of filter_out
    pat = repo.func('lark.load_grammar:PrepareAnonTerminals.pattern')
    pparam = pat.positional_names()[0] if pat.positional_names() else 'p'
    from ..exprs import match_cond
    fo = match_cond(pat.body_nodes(), '$$cond', 'False', 'isinstance($p, PatternStr)', {'p': pparam}, target_src='$fo')
    okp = len(fo) == 1 and 'keep_all_tokens' in fo[0][1]['$$cond'] and \
        any(isinstance(r_, ast.Return) and isinstance(r_.value, ast.Call) and norm(r_.value.func) == 'Terminal'
            and norm(call_args_by_name(repo, r_.value, 'lark.grammar:Terminal').get('filter_out', ast.Constant(value=None))) == fo[0][1]['fo']
            for r_ in pat.body_nodes())
    res.ob('%s %s' % (pat.loc(), pat.qual), 'anonymous terminals: filtered iff they are string literals (never under !)', okp)
    if not okp:
        res.finding(pat, pat.node, 'anonymous terminals are no longer marked "filter out iff string literal (and the rule is not !)"',
                    construct='keep:anon')
    # rule modifiers: `?` and `!` may be written in either order (`!?x`, `?!x`), so each flag is a membership test on the
    # modifier text, never a test of its position
    mrt = repo.func('lark.load_grammar:_make_rule_tuple')
    flags = {}
    # (the locals are identified by the RuleOptions parameter they end up in, not by their names)
    ro_calls = [c_ for c_ in mrt.body_nodes() if isinstance(c_, ast.Call) and norm(c_.func) == 'RuleOptions']
    role = {}
    if ro_calls:
        for pn_, an_ in call_args_by_name(repo, ro_calls[0], 'lark.grammar:RuleOptions').items():
            if pn_ in ('expand1', 'keep_all_tokens') and isinstance(an_, ast.Name):
                role[an_.id] = pn_
    for a_ in mrt.body_nodes():
        if isinstance(a_, ast.Assign) and len(a_.targets) == 1 and isinstance(a_.targets[0], ast.Name) and a_.targets[0].id in role:
            if isinstance(a_.value, ast.Constant):
                continue
            flags.setdefault(role[a_.targets[0].id], []).append(a_.value)
    okm = set(flags) == {'expand1', 'keep_all_tokens'}
    for nm_, vals in flags.items():
        for v_ in vals:
            if not (isinstance(v_, ast.Compare) and len(v_.ops) == 1 and isinstance(v_.ops[0], ast.In) and const_str(v_.left) in ('?', '!')
                    and isinstance(v_.comparators[0], ast.Name)):
                okm = False
    res.ob('%s %s' % (mrt.loc(), mrt.qual), 'the ? and ! modifiers are recognised by membership in the modifier text (any order)', okm)
    if not okm:
        res.finding(mrt, mrt.node, 'a rule modifier is recognised by position (%s) rather than by membership: `?!rule` and `!?rule` no longer mean '
                    'the same, and one spelling silently loses keep_all_tokens / expand1' % {k_: [norm(v_) for v_ in vs] for k_, vs in flags.items()},
                    construct='keep:modifiers')
    pg = repo.func('lark.load_grammar:PrepareGrammar.terminal')
    okg = any(isinstance(n, ast.Call) and norm(n.func) == 'Terminal'
              and norm(call_args_by_name(repo, n, 'lark.grammar:Terminal').get('filter_out', ast.Constant(value=None))) == "name.startswith('_')"
              for n in pg.body_nodes())
    res.ob('%s %s' % (pg.loc(), pg.qual), 'named terminals: filtered iff the name starts with an underscore', okg)
    if not okg:
        res.finding(pg, pg.node, 'named terminals are no longer filtered exactly when their name starts with "_"', construct='keep:named')
    se = repo.func('lark.parse_tree_builder:_should_expand')
    oke = any(isinstance(n, ast.Return) and norm(n.value) == "not sym.is_term and sym.name.startswith('_')" for n in se.body_nodes())
    res.ob('%s %s' % (se.loc(), se.qual), 'inlined: non-terminal whose name starts with an underscore', oke)
    if not oke:
        res.finding(se, se.node, '_should_expand is no longer "non-terminal and name starts with _"', construct='keep:should-expand')
    return res


def _tri(e: ast.AST, env: Dict[str, bool]):
    """three-valued evaluation of a test over the atoms in env (None = unknown)."""
    if isinstance(e, ast.Name):
        return env.get(e.id)
    if isinstance(e, ast.UnaryOp) and isinstance(e.op, ast.Not):
        v = _tri(e.operand, env)
        return None if v is None else not v
    if isinstance(e, ast.BoolOp):
        vals = [_tri(v, env) for v in e.values]
        if isinstance(e.op, ast.Or):
            if any(v is True for v in vals):
                return True
            return False if all(v is False for v in vals) else None
        if any(v is False for v in vals):
            return False
        return True if all(v is True for v in vals) else None
    return None


def _fmt_prefix(s: str) -> str:
    i = s.find('%')
    return s if i < 0 else s[:i]


def run_prefix(ctx: Ctx) -> RuleResult:
    repo = ctx.repo
    res = RuleResult('R-PREFIX-PROTOCOL', 'helper names carry the prefix their consumer tests; users cannot define names with it')
    res.default_props = ['C03', 'C09', 'C17']
    # EBNF helpers
    nr = repo.func('lark.load_grammar:EBNF_to_BNF._name_rule')
    from ..exprs import str_template as _st
    fmts = []
    for n in nr.body_nodes():
        t_ = _st(n) if isinstance(n, (ast.BinOp, ast.JoinedStr, ast.Call)) else None
        if t_ is not None and t_[1] and not (isinstance(parent(n), ast.BinOp) and _st(parent(n)) is not None):
            fmts.append(t_[0])
    ok = len(fmts) == 1 and _fmt_prefix(fmts[0]).startswith('__')
    res.ob('%s %s' % (nr.loc(), nr.qual), 'EBNF helper rules are named %r: start with "__" (inlined by _should_expand, reserved for the loader)' % fmts, ok)
    if not ok:
        res.finding(nr, nr.node, 'EBNF helper rule names %s do not start with "__": helper nodes become visible in the tree or can '
                    'clash with user rules' % fmts, construct='prefix:ebnf')
    # every generated rule goes through _name_rule
    k = repo.cls('lark.load_grammar:EBNF_to_BNF')
    for m in k.swept_methods():
        for n in m.body_nodes():
            if isinstance(n, ast.Call) and norm(n.func) == 'self._add_rule' and len(n.args) >= 2:
                nm = n.args[1]
                defs = [x.value for x in m.body_nodes() if isinstance(x, ast.Assign) and norm(x.targets[0]) == norm(nm)]
                ok = (bool(defs) and all(isinstance(d, ast.Call) and norm(d.func) == 'self._name_rule' for d in defs)) or \
                    (isinstance(nm, ast.Call) and norm(nm.func) == 'self._name_rule')
                res.ob('%s %s' % (m.loc(n), m.qual), 'generated rule name comes from _name_rule', ok)
                if not ok:
                    res.finding(m, n, 'a helper rule is added under a name that does not come from _name_rule', construct='prefix:add-rule')
    # reserved for users
    df = repo.func('lark.load_grammar:GrammarBuilder._define')
    ok = any(isinstance(n, ast.If) and norm(n.test) == "name.startswith('__')" and any('_grammar_error' in norm(s) or isinstance(s, ast.Raise)
                                                                                        for s in n.body) for n in df.body_nodes())
    res.ob('%s %s' % (df.loc(), df.qual), 'user definitions starting with "__" are refused', ok)
    if not ok:
        res.finding(df, df.node, 'names starting with "__" are no longer refused for user definitions: they can collide with generated helpers',
                    construct='prefix:reserved')
    # CYK
    sp = repo.func('lark.parsers.cyk:_split')
    tm = repo.func('lark.parsers.cyk:_term')
    rv = repo.func('lark.parsers.cyk:revert_cnf')
    cons = [const_str(n.args[0]) for n in rv.body_nodes() if isinstance(n, ast.Call) and norm(n.func).endswith('.startswith') and n.args]
    from ..exprs import str_template as _st2

    def _templates(fn):
        """string templates built in fn ('%', .format, f-string, '+' with a literal), outermost only"""
        out = []
        for n in fn.body_nodes():
            t_ = _st2(n) if isinstance(n, (ast.BinOp, ast.JoinedStr, ast.Call)) else None
            if t_ is None or not t_[1]:
                continue
            if isinstance(parent(n), ast.BinOp) and _st2(parent(n)) is not None:
                continue
            out.append(t_[0])
        return out
    sp_f = [t for t in _templates(sp) if t.startswith('__')]
    tm_f = _templates(tm)
    for what, prod, f in (('BIN split', sp_f, sp), ('TERM', tm_f, tm)):
        prod = sorted(set(prod))        # (the same format written out at several uses counts once)
        ok = len(prod) == 1 and any(c and _fmt_prefix(prod[0]).startswith(c) for c in cons)
        mine = [c for c in cons if prod and c and _fmt_prefix(prod[0]).startswith(c)]
        res.ob('%s %s' % (f.loc(), f.qual), 'CNF %s helpers named %r are recognised by revert_cnf via %r' % (what, prod, mine), ok)
        if not ok:
            res.finding(f, f.node, 'CNF %s helper names %s are not recognised by revert_cnf (tests %s): CYK trees keep helper nodes or '
                        'lose real ones' % (what, prod, cons), construct='prefix:cyk-' + what.split()[0].lower())
    # the split helper's name encodes (lhs, rhs) injectively: components are str()/repr() of the symbols (delimited by the
    # Symbol repr), never bare names glued with a character that names can contain
    comp_bad = []
    for n in sp.body_nodes():
        if isinstance(n, ast.Assign) and isinstance(n.targets[0], ast.Name) and n.targets[0].id == 'rule_str':
            for x in ast.walk(n.value):
                if isinstance(x, ast.Attribute) and x.attr == 'name':
                    comp_bad.append(norm(x))
    symrepr = repo.cls('lark.grammar:Symbol').methods.get('__repr__')
    delim = symrepr is not None and any(const_str(x.left) == '%s(%r)' for x in symrepr.body_nodes()
                                        if isinstance(x, ast.BinOp) and isinstance(x.op, ast.Mod))
    ok2 = not comp_bad and delim
    res.ob('%s %s' % (sp.loc(), sp.qual), 'split helper names are built from str() of the symbols (delimited), so distinct rules get distinct helpers', ok2)
    if not ok2:
        res.finding(sp, sp.node, 'CNF split helper names are glued from bare symbol names %s: rules such as `x_y z` and `x y_z` collide on one '
                    'helper non-terminal and CYK accepts/derives across them' % comp_bad[:2], construct='prefix:cyk-injective')
    ok = len(set(cons)) == 2 and not any(a != b and (a.startswith(b) or b.startswith(a)) for a in cons for b in cons)
    res.ob('%s %s' % (rv.loc(), rv.qual), 'the two CNF prefixes %s do not shadow each other' % cons, ok)
    if not ok:
        res.finding(rv, rv.node, 'revert_cnf prefixes %s are ambiguous' % cons, construct='prefix:cyk-ambiguous')
    # anonymous string literals: a name *proposed* for one ("=" -> EQUAL, "if" -> IF) is dropped when a terminal of that name exists
    # (otherwise the literal silently becomes the user's terminal, with the user's pattern)
    pa = repo.func('lark.load_grammar:PrepareAnonTerminals.pattern')
    psn = pa.self_name() or 'self'
    from ..exprs import runs_only_if, bool_relation
    uses = [c for c in pa.body_nodes() if isinstance(c, ast.Call) and norm(c.func) == 'Terminal' and c.args and isinstance(c.args[0], ast.Name)]
    if len(uses) != 1:
        raise AnalysisError('R-PREFIX-PROTOCOL: PrepareAnonTerminals.pattern: cannot find the Terminal(<name>, ...) it returns')
    nm = uses[0].args[0].id
    # the name may be computed by a helper method of the same class (a function split in two): judge the helper
    asg_nm = [a for a in pa.body_nodes() if isinstance(a, ast.Assign) and len(a.targets) == 1 and norm(a.targets[0]) == nm]
    if len(asg_nm) == 1 and isinstance(asg_nm[0].value, ast.Call) and isinstance(asg_nm[0].value.func, ast.Attribute) \
            and norm(asg_nm[0].value.func.value) == psn and pa.cls is not None and asg_nm[0].value.func.attr in pa.cls.methods:
        h_ = pa.cls.methods[asg_nm[0].value.func.attr]
        rnames = {norm(r.value) for r in h_.body_nodes() if isinstance(r, ast.Return) and r.value is not None}
        if len(rnames) == 1 and all(isinstance(r.value, ast.Name) for r in h_.body_nodes() if isinstance(r, ast.Return) and r.value is not None):
            pa = h_
            psn = pa.self_name() or 'self'
            nm = next(iter(rnames))
        else:
            raise AnalysisError('R-PREFIX-PROTOCOL: PrepareAnonTerminals: the helper %s that names the terminal does not return one local' % h_.name)
    proposals = [a for a in pa.body_nodes() if isinstance(a, ast.Assign) and len(a.targets) == 1 and norm(a.targets[0]) == nm
                 and not isinstance(a.value, ast.Constant) and 'term_reverse' not in norm(a.value) and '__ANON' not in norm(a.value) and norm(a.value) != nm]
    resets = [i_ for i_ in pa.body_nodes() if isinstance(i_, ast.If) and bool_relation(i_.test, ast.parse('%s in %s.term_set' % (nm, psn), mode='eval').body) == 'same'
              and any(isinstance(a, ast.Assign) and norm(a.targets[0]) == nm and norm(a.value) == 'None' for a in i_.body)]
    bad_p = []
    for a in proposals:
        direct = runs_only_if(a, ast.parse('%s not in %s.term_set' % (norm(a.value), psn), mode='eval').body)
        later = any(r_.lineno > a.lineno and any(parent(r_) is anc or parent(r_) is pa.node for anc in ancestors(a)) for r_ in resets)
        if not (direct or later):
            bad_p.append(a)
    okp = bool(proposals) and not bad_p
    res.ob('%s %s' % (pa.loc(), pa.qual), 'a name proposed for an anonymous literal is used only if no terminal of that name exists (%d proposals)' % len(proposals), okp,
           props=['C01', 'C03', 'C07'])
    if not okp:
        res.finding(pa, bad_p[0] if bad_p else pa.node, 'a name proposed for an anonymous string literal (%s) is kept although a terminal of that name may already exist: '
                    'the literal is then replaced by that terminal and matches *its* pattern ("=" matches "==" when the grammar defines EQUAL: "==")'
                    % (norm(bad_p[0].value) if bad_p else 'no proposal found'), construct='anon-name-taken', props=['C01', 'C03', 'C07'])
    return res


def run_ambig_index(ctx: Ctx) -> RuleResult:
    repo = ctx.repo
    res = RuleResult('R-AMBIG-INDEX', 'wrapper chain order: ExpandSingleChild innermost, then child filter, positions, '
                                      'ambiguity expanders outermost (their indices are over the unfiltered expansion)')
    ib = repo.func('lark.parse_tree_builder:ParseTreeBuilder._init_builders')
    lists = [n for n in ib.body_nodes() if isinstance(n, ast.List) and len(n.elts) >= 4]
    site = '%s %s' % (ib.loc(), ib.qual)
    if len(lists) != 1:
        res.ob(site, 'the wrapper chain is one list display', False)
        res.finding(ib, ib.node, 'cannot find the wrapper chain list', construct='chain')
        return res
    def _elt_text(e):
        # an element kept in a local (a loop-invariant wrapper built once) stands for its definition
        if isinstance(e, ast.Name):
            defs_ = [d_.value for d_ in ib.body_nodes() if isinstance(d_, ast.Assign) and len(d_.targets) == 1 and norm(d_.targets[0]) == e.id]
            if len(defs_) == 1:
                return norm(defs_[0])
        return norm(e)
    elts = [_elt_text(e) for e in lists[0].elts]

    def idx(sub):
        for i, t in enumerate(elts):
            if sub in t:
                return i
        return -1
    res.default_props = ['C03', 'C04', 'C16']
    order = [idx('ExpandSingleChild'), idx('maybe_create_child_filter'), idx('propagate_positions'),
             idx('maybe_create_ambiguous_expander'), idx('AmbiguousIntermediateExpander')]
    ok = all(i >= 0 for i in order) and order == sorted(order) and len(set(order)) == 5
    res.ob(site, 'chain order %s' % [e[:40] for e in elts], ok, props=['C03', 'C04', 'C16', 'C06'])
    if not ok:
        res.finding(ib, lists[0], 'the shaping wrappers are chained in the order %s; the index computations assume '
                    '[ExpandSingleChild, child filter, positions, ambiguous expander, intermediate expander]' % order, construct='chain-order',
                    props=['C03', 'C04', 'C16', 'C06'])
    # both index computations enumerate the rule's *unfiltered* expansion
    for fq in ('lark.parse_tree_builder:maybe_create_child_filter', 'lark.parse_tree_builder:maybe_create_ambiguous_expander'):
        f = repo.func(fq)
        ok = any(isinstance(n, (ast.For, ast.comprehension)) and norm(n.iter) == 'enumerate(expansion)' for n in f.body_nodes())
        res.ob('%s %s' % (f.loc(), f.qual), 'indices are positions in the unfiltered expansion', ok)
        if not ok:
            res.finding(f, f.node, 'indices are not computed by enumerating the rule\'s expansion', construct='index-base')
    calls = [n for n in ib.body_nodes() if isinstance(n, ast.Call) and norm(n.func) in ('maybe_create_child_filter', 'maybe_create_ambiguous_expander')]
    from ..exprs import bind_call, influences
    bound_args = {}
    for c in calls:
        callee = repo.func('lark.parse_tree_builder:' + norm(c.func))
        bnd, _exact = bind_call(c, callee.positional_names())
        bound_args[norm(c.func)] = bnd
        # <loop variable over the rules>.expansion  (positional or by keyword, directly or through a local)
        rvars = {norm(l.target) for l in ib.body_nodes() if isinstance(l, ast.For) and isinstance(l.target, ast.Name)}
        a_ = bnd.get('expansion')
        ok = a_ is not None and isinstance(a_, ast.Attribute) and a_.attr == 'expansion' and norm(a_.value) in rvars
        if not ok and isinstance(a_, ast.Name):
            defs_ = [d.value for d in ib.body_nodes() if isinstance(d, ast.Assign) and len(d.targets) == 1 and norm(d.targets[0]) == a_.id]
            ok = len(defs_) == 1 and isinstance(defs_[0], ast.Attribute) and defs_[0].attr == 'expansion' and norm(defs_[0].value) in rvars
        res.ob(ib.loc(c), '%s receives rule.expansion' % norm(c.func), ok)
        if not ok:
            res.finding(ib, c, '%s is not given the rule\'s own expansion' % norm(c.func), construct='index-arg:' + norm(c.func))
    # placeholders only when maybe_placeholders
    # (dependence, not spelling: the argument bound to _empty_indices depends on <options>.empty_indices and on
    #  <self>.maybe_placeholders, and has a None alternative)
    ei = bound_args.get('maybe_create_child_filter', {}).get('_empty_indices')
    ok = False
    if ei is not None:
        deps = {x.attr for x in influences(ib, ei)}
        none_alt = any(isinstance(x, ast.Constant) and x.value is None for x in ast.walk(ei))
        if isinstance(ei, ast.Name):
            none_alt = any(isinstance(d, ast.Assign) and norm(d.targets[0]) == ei.id and isinstance(d.value, ast.Constant) and d.value.value is None
                           for d in ib.body_nodes())
        ok = {'empty_indices', 'maybe_placeholders'} <= deps and none_alt
    res.ob(site, 'None placeholders are inserted only under maybe_placeholders', ok, props=['C03'])
    if not ok:
        res.finding(ib, ib.node, 'empty_indices are passed to the child filter regardless of maybe_placeholders', construct='placeholders', props=['C03'])
    # ChildFilter semantics: per kept index: add_none Nones before, expand or append; trailing Nones
    for cname in ('ChildFilter', 'ChildFilterLALR'):
        m = repo.func('lark.parse_tree_builder:%s.__call__' % cname)
        loops = [n for n in m.node.body if isinstance(n, ast.For) and norm(n.iter) == 'self.to_include']
        ok = len(loops) == 1 and isinstance(loops[0].target, ast.Tuple) and len(loops[0].target.elts) == 3
        if ok:
            lp = loops[0]
            iv, ev, nv = [norm(x) for x in lp.target.elts]
            first_none = None
            first_child = None
            for i_st, st in enumerate(lp.body):
                t = norm(st)
                if first_none is None and '[None] * %s' % nv in t:
                    first_none = i_st
                if first_child is None and 'children[%s]' % iv in t:
                    first_child = i_st
            ok = first_none is not None and first_child is not None and first_none < first_child
            after = m.node.body[m.node.body.index(lp) + 1:]
            ok = ok and any('[None] * self.append_none' in norm(st) for st in after) \
                and isinstance(after[-1], ast.Return) and 'self.node_builder(' in norm(after[-1])
        pr_ = ['C03', 'C04'] if cname == 'ChildFilter' else ['C03']      # ChildFilter is the one used under explicit ambiguity
        res.ob('%s %s' % (m.loc(), m.qual), 'placeholders precede the kept child they belong to; trailing ones are appended', ok, props=pr_)
        if not ok:
            res.finding(m, m.node, '%s no longer inserts the None placeholders before the kept child / at the end' % cname, construct=cname + ':nones', props=pr_)
    mcf = repo.func('lark.parse_tree_builder:maybe_create_child_filter')
    acc = find_pat(mcf.body_nodes(), '$n += $e[$i]')
    ok = False
    for _n, b_ in acc:
        if has_pat(mcf.body_nodes(), '$n = 0', {'n': b_['n']}) and has_pat(mcf.body_nodes(), '$n += $e[len($x)]', {'n': b_['n'], 'e': b_['e']}):
            ok = True
    res.ob('%s %s' % (mcf.loc(), mcf.qual), 'placeholders accumulate over dropped symbols and attach to the next kept one', ok, props=['C03'])
    if not ok:
        res.finding(mcf, mcf.node, 'the accumulation of None placeholders over filtered symbols changed', construct='nones-accumulate', props=['C03'])
    # the in-place (LALR) child filters are selected only when the tree is not ambiguous
    import itertools as _it
    sel_bad = []
    n_sel = 0
    for r in [n for n in mcf.body_nodes() if isinstance(n, ast.Return) and n.value is not None]:
        call = r.value
        if not (isinstance(call, ast.Call) and norm(call.func) == 'partial' and call.args):
            continue
        conds = [a for a in ancestors(r) if isinstance(a, ast.If)]
        for amb, emp in _it.product([False, True], repeat=2):
            env = {'ambiguous': amb, '_empty_indices': emp}
            # is this return reachable under the valuation? (unknown atoms: assume both)
            reachable = True
            p_ = r
            for a in ancestors(r):
                if isinstance(a, ast.If):
                    v = _tri(a.test, env)
                    in_body = any(p_ is x for x in a.body) or any(p_ is y for x in a.body for y in ast.walk(x))
                    if v is not None and v != in_body:
                        reachable = False
                p_ = a
            if not reachable:
                continue
            cls = call.args[0]
            name = None
            if isinstance(cls, ast.IfExp):
                v = _tri(cls.test, env)
                name = norm(cls.body) if v else norm(cls.orelse) if v is not None else None
            else:
                name = norm(cls)
            n_sel += 1
            if amb and name is not None and 'LALR' in name:
                sel_bad.append((amb, emp, name))
    ok = not sel_bad and n_sel >= 4
    res.ob('%s %s' % (mcf.loc(), mcf.qual), 'the in-place child filters (ChildFilterLALR*) are chosen only when ambiguous is false '
           '(%d selections evaluated)' % n_sel, ok)
    if not ok:
        res.finding(mcf, mcf.node, 'an in-place (LALR) child filter is selected under ambiguity %s: it reuses a child\'s list, which several '
                    'derivations share in an ambiguous forest' % sel_bad[:2], construct='inplace-under-ambiguity')
    # ambiguity expansion: the alternatives of an _ambig child are its children only after nested _ambig nodes were
    # flattened into it (an _ambig built by an inner expander can itself hold _ambig children)
    ae = repo.func('lark.parse_tree_builder:AmbiguousExpander.__call__')
    cparam = ae.positional_names()[0] if ae.positional_names() else 'children'
    ok = False
    flat = find_pat(ae.body_nodes(), "$c.expand_kids_by_data('_ambig')")
    for call, b_ in flat:
        loop = next((a for a in ancestors(call) if isinstance(a, ast.For)), None)
        if loop is None or not find_pat([loop.iter], 'enumerate($ch)', {'ch': cparam}):
            continue
        if not (isinstance(loop.target, ast.Tuple) and len(loop.target.elts) == 2 and norm(loop.target.elts[1]) == b_['c']):
            continue
        guards = []
        for a in ancestors(call):
            if a is loop:
                break
            if isinstance(a, ast.If):
                guards.append(a.test)
        if all(find_pat([g], '$pred($c)', {'c': b_['c']}) for g in guards) and len(guards) <= 1:
            uses = [n for n in ae.body_nodes() if isinstance(n, (ast.ListComp, ast.GeneratorExp)) and '.children' in norm(n)
                    and n.lineno > loop.lineno]
            ok = bool(uses)
    res.ob('%s %s' % (ae.loc(), ae.qual), 'every _ambig child is flattened (nested _ambig merged into it) before its children are used as '
                                           'alternatives', ok)
    if not ok:
        res.finding(ae, ae.node, 'AmbiguousExpander uses the children of an _ambig child as alternatives without first merging nested _ambig '
                                 'nodes into it: a nested _ambig is then spliced in as if it were one derivation (unsound trees, lost derivations)',
                    construct='ambig-flatten')
    # ... and the product replaces exactly the children found ambiguous (the local collected above), nothing more
    amb_sets = find_pat(ae.body_nodes(), '$A.append($i)')
    prod = find_pat(ae.body_nodes(), '[$c.children if $i in $$S else ($c,) for $i, $c in enumerate($ch)]', {'ch': cparam})
    okp = len(prod) == 1 and bool(amb_sets) and prod[0][1]['$$S'] == amb_sets[0][1]['A'] and \
        has_pat(ae.body_nodes(), 'if not $A:\n    return $$r', {'A': amb_sets[0][1]['A']})
    res.ob('%s %s' % (ae.loc(), ae.qual), 'the alternatives product expands exactly the children that were found ambiguous', okp)
    if not okp:
        res.finding(ae, ae.node, 'AmbiguousExpander does not expand exactly the set of ambiguous children it collected (%s vs %s): a plain child '
                    'in an expandable position is treated as a list of alternatives' % (
                        prod[0][1]['$$S'] if prod else '?', amb_sets[0][1]['A'] if amb_sets else '?'), construct='ambig-product-set')
    esc = repo.func('lark.parse_tree_builder:ExpandSingleChild.__call__')
    body = ' '.join(norm(s) for s in esc.node.body)
    from ..exprs import cond_values, bool_relation
    escp = esc.positional_names()[0] if esc.positional_names() else 'children'
    ok = False
    for tgt_, test_, va_, vb_, _n in cond_values(esc.body_nodes()):
        rel_ = bool_relation(test_, ast.parse('len(%s) == 1' % escp, mode='eval').body)
        if rel_ == 'negated':
            va_, vb_ = vb_, va_
        if rel_ and tgt_ == 'return' and norm(va_) == '%s[0]' % escp and 'node_builder' in norm(vb_):
            ok = True
    res.ob('%s %s' % (esc.loc(), esc.qual), '?rule: replaced by its child iff it has exactly one', ok, props=['C03', 'C16'])
    if not ok:
        res.finding(esc, esc.node, 'ExpandSingleChild no longer inlines exactly the single-child case (a child that is None / falsy is a '
                    'child like any other: the embedded transformer may have returned it)', construct='expand1', props=['C03', 'C16'])
    # an '_ambig' node is built exactly when there is more than one derivation (two derivations are already ambiguous)
    from ..exprs import path_conditions, as_less
    from ..model import enclosing_stmt as _encl
    n_amb = 0
    for fq in ('lark.parsers.earley_forest:ForestToParseTree._call_ambig_func', 'lark.parsers.earley_forest:TreeForestTransformer.__default_ambig__'):
        f = repo.func(fq)
        mk = [c for c in f.body_nodes() if isinstance(c, ast.Call) and c.args and const_str(c.args[0]) == '_ambig']
        for c in mk:
            n_amb += 1
            data = norm(c.args[1]) if len(c.args) > 1 else '?'
            want = ast.parse('len(%s) > 1' % data, mode='eval').body
            conds = path_conditions(_encl(c))
            ok = any((bool_relation(t, want) == 'same' and pol) or (bool_relation(t, want) == 'negated' and not pol) for t, pol in conds)
            res.ob('%s %s' % (f.loc(c), f.qual), "an '_ambig' node is built exactly when len(%s) > 1" % data, ok, props=['C04', 'C20'])
            if not ok:
                res.finding(f, c, "the '_ambig' node over %s is not built exactly when there is more than one derivation (conditions: %s): with two "
                            'derivations one is silently dropped, or a single derivation is wrapped' % (data, [('' if p_ else 'not ') + norm(t) for t, p_ in conds]),
                            construct='ambig-threshold', props=['C04', 'C20'])
    res.require_instances(n_amb, 2, "'_ambig' construction sites of the forest transformers")
    # intermediate ambiguity is expanded exactly when ambiguity is kept (not resolved)
    crf = repo.func('lark.parsers.earley_forest:TreeForestTransformer._call_rule_func')
    wr = [a for a in crf.body_nodes() if isinstance(a, ast.Call) and 'AmbiguousIntermediateExpander' in norm(a)]
    if wr:
        conds = path_conditions(_encl(wr[0]))
        okw = len(conds) == 1 and any((norm(t).endswith('.resolve_ambiguity') and not norm(t).startswith('not ') and not pol) or
                                      (norm(t).startswith('not ') and norm(t).endswith('.resolve_ambiguity') and pol) for t, pol in conds)
        res.ob('%s %s' % (crf.loc(), crf.qual), 'AmbiguousIntermediateExpander wraps the rule callback exactly when ambiguity is not resolved', okw, props=['C04', 'C20'])
        if not okw:
            res.finding(crf, wr[0], 'the intermediate-ambiguity expander is applied under %s, expected exactly `not self.resolve_ambiguity`: with ambiguity kept, '
                        '_iambig / _inter helper nodes stay in the result and derivations are lost' % [('' if p_ else 'not ') + norm(t) for t, p_ in conds],
                        construct='iambig-wrapper', props=['C04', 'C20'])
    # the product of no alternatives is the one empty combination (a node without children has one derivation, not none)
    ca = repo.func('lark.utils:combine_alternatives')
    pca = ca.positional_names()[0]
    okc = True
    why = ''
    for r_ in [r for r in ca.body_nodes() if isinstance(r, ast.Return) and r.value is not None]:
        conds = path_conditions(r_)
        if any(norm(t) == pca and not pol or norm(t) == 'not ' + pca and pol for t, pol in conds):
            v = r_.value
            okc = isinstance(v, ast.List) and len(v.elts) == 1 and isinstance(v.elts[0], (ast.List, ast.Tuple)) and not v.elts[0].elts
            why = norm(v)
    res.ob('%s %s' % (ca.loc(), ca.qual), 'combine_alternatives([]) is [[]] (one empty combination)', okc, props=['C04', 'C20'])
    if not okc:
        res.finding(ca, ca.node, 'combine_alternatives returns %s for no lists: a tree node without children then expands to no tree at all instead of '
                    'one, and every derivation containing it disappears (or an assertion fails)' % why, construct='product-unit', props=['C04', 'C20'])
    # CollapseAmbiguities: every callback answers with a *list* of alternatives (combine_alternatives takes the product of lists; a token --
    # a str -- handed over bare is taken apart into its characters)
    cab = repo.cls('lark.visitors:CollapseAmbiguities')

    def _is_list(v, f_):
        if isinstance(v, (ast.List, ast.ListComp)):
            return True
        if isinstance(v, ast.Call) and norm(v.func) in ('list', 'sorted'):
            return True
        if isinstance(v, ast.Call) and norm(v.func) == 'sum' and len(v.args) == 2 and isinstance(v.args[1], ast.List):
            return True
        if isinstance(v, ast.BinOp) and isinstance(v.op, ast.Add):
            return _is_list(v.left, f_) or _is_list(v.right, f_)
        if isinstance(v, ast.Name):
            # a local that starts as a list (and is then extended / re-bound to a sum with itself) is a list
            defs_ = [a_ for a_ in f_.body_nodes() if isinstance(a_, ast.Assign) and len(a_.targets) == 1 and norm(a_.targets[0]) == v.id]
            return any(isinstance(a_.value, (ast.List, ast.ListComp)) or (isinstance(a_.value, ast.Call) and norm(a_.value.func) in ('list', 'sorted'))
                       for a_ in defs_) and v.id not in f_.positional_names()
        return False
    n_cb = 0
    for mname in ('_ambig', '__default__', '__default_token__'):
        m_ = cab.methods.get(mname)
        if m_ is None:
            raise AnalysisError('R-AMBIG-INDEX: CollapseAmbiguities.%s is gone' % mname)
        rets_ = [r for r in m_.body_nodes() if isinstance(r, ast.Return)]
        if not rets_:
            raise AnalysisError('R-AMBIG-INDEX: CollapseAmbiguities.%s has no return' % mname)
        n_cb += 1
        bad_ = [r for r in rets_ if r.value is None or not _is_list(r.value, m_)]
        res.ob('%s %s' % (m_.loc(), m_.qual), 'answers with a list of alternatives', not bad_, props=['C04'])
        if bad_:
            res.finding(m_, bad_[0], 'CollapseAmbiguities.%s returns %s, which is not a list of alternatives: the parent takes the product over its '
                        'children\'s lists, so a bare token is split into its characters (or the product fails)'
                        % (mname, norm(bad_[0].value) if bad_[0].value is not None else 'None'), construct='collapse:returns-list:%s' % mname, props=['C04'])
    for f_ in res.findings:         # everything else here is about ambiguity / index bases
        if f_.props is None:
            f_.props = ['C03', 'C04']
    return res
