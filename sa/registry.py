"""Which rules serve which property, and the claim text that goes into evidence / MANIFEST."""
from __future__ import annotations

import importlib
from typing import Callable, Dict

RULES: Dict[str, str] = {
    # rule id -> 'module:function'
    'R-EQHASH': 'sa.rules.eqhash:run',
    'R-POS-AFFINITY': 'sa.rules.positions:run_affinity',
    'R-NEWLINE-PRED': 'sa.rules.positions:run_newline_pred',
    'R-TOKEN-NONE-TEST': 'sa.rules.positions:run_token_none_test',
    'R-META-TRIPLES': 'sa.rules.positions:run_meta_triples',
    'R-SHARED-EFFECTS': 'sa.rules.effects:run_effects',
    'R-POSTLEX-RESET': 'sa.rules.effects:run_postlex_reset',
    'R-ACCEPTS-PURE': 'sa.rules.effects:run_accepts_pure',
    'R-LOAD-PURE': 'sa.rules.effects:run_load_pure',
    'R-INDENT-PAIRING': 'sa.rules.indenter:run_pairing',
    'R-INDENT-GRAMMAR': 'sa.rules.indenter:run_grammar',
    'R-SENTINEL-SLOTS': 'sa.rules.forest:run_sentinel',
    'R-PERCALL-ESCAPE': 'sa.rules.effects:run_percall_escape',
    'R-COMPILE-COPIES': 'sa.rules.effects:run_compile_copies',
    'R-SORT-TOTAL': 'sa.rules.sorttotal:run',
    'R-MANGLE-PROTOCOL': 'sa.rules.imports:run',
    'R-REPEAT-COUNT': 'sa.rules.repeat:run',
    'R-EARLEY-PROTOCOL': 'sa.rules.earley:run',
    'R-RECONS-PROTOCOL': 'sa.rules.recons:run',
    'R-LALR-DRIVER': 'sa.rules.lalr:run_driver',
    'R-LALR-TABLE': 'sa.rules.lalr:run_table',
    'R-CONFIG-FORWARD': 'sa.rules.structure:run_config_forward',
    'R-OVERWRITTEN-STORE': 'sa.rules.structure:run_overwritten',
    'R-COPY-COVERS': 'sa.rules.structure:run_copy_covers',
    'R-SPLIT-ARMS': 'sa.rules.structure:run_split_arms',
    'R-PARAM-FORWARD': 'sa.rules.structure:run_param_forward',
    'R-CLASS-MUTABLE': 'sa.rules.structure:run_class_mutable',
    'R-FORMAT-ARITY': 'sa.rules.structure:run_format_arity',
    'R-GUARD-SAME-SET': 'sa.rules.structure:run_guard_same_set',
    'R-FLAG-DEFAULT': 'sa.rules.structure:run_flag_default',
    'R-SCAN-BUFFER': 'sa.rules.forest:run_scan_buffer',
    'R-IDENTITY-EQ': 'sa.rules.eqhash:run_identity',
    'R-SPLIT-TOTAL': 'sa.rules.indenter:run_split_total',
    'R-SERIAL-AGREE': 'sa.rules.serial:run_agree',
    'R-SERIAL-NORM': 'sa.rules.serial:run_norm',
    'R-SERIAL-NS': 'sa.rules.serial:run_ns',
    'R-LOAD-REAPPLY': 'sa.rules.serial:run_load_reapply',
    'R-STANDALONE-CLOSURE': 'sa.rules.standalone:run',
    'R-CACHE': 'sa.rules.cache:run',
    'R-FORK-ALIAS': 'sa.rules.fork:run_alias',
    'R-SHALLOW-FORK': 'sa.rules.fork:run_shallow',
    'R-TERM-NAME-PROTOCOL': 'sa.rules.fork:run_term_names',
    'R-SCAN-PROGRESS': 'sa.rules.scan:run',
    'R-REPR-PARAM': 'sa.rules.repr:run_repr',
    'R-WINDOW-BOUNDS': 'sa.rules.repr:run_window',
    'R-XFORM-PARITY': 'sa.rules.xform:run_parity',
    'R-NODE-NAME': 'sa.rules.xform:run_node_name',
    'R-KEEP-PRED': 'sa.rules.shape:run_keep',
    'R-PREFIX-PROTOCOL': 'sa.rules.shape:run_prefix',
    'R-AMBIG-INDEX': 'sa.rules.shape:run_ambig_index',
    'R-NODECACHE': 'sa.rules.forest:run_nodecache',
    'R-VISIT-GUARD': 'sa.rules.forest:run_visit_guard',
    'R-ORDER-DET': 'sa.rules.order:run_order',
    'R-PRIO-SIBLINGS': 'sa.rules.order:run_prio',
    'R-LEX-PRECEDENCE': 'sa.rules.lexprec:run',
    'R-EXC-DISCIPLINE': 'sa.rules.exc:run',
    'R-ONERROR-SKIP': 'sa.rules.exc:run_on_error',
}

PROPERTIES: Dict[str, dict] = {}


def rule_fn(rule_id: str) -> Callable:
    mod, fn = RULES[rule_id].split(':')
    return getattr(importlib.import_module(mod), fn)


_ASSUME = [
    'name and receiver resolution is the checker\'s own (annotations, constructor calls, one-level argument propagation, CHA); '
    'getattr/setattr with computed names outside the dispatch table are not followed (listed in the evidence)',
    'user-supplied callbacks, lexers and post-lexers are external code and are not analysed',
    'implicit exceptions (KeyError, RecursionError ...) and the C-level behaviour of `re` are not modelled',
]


def _p(rules, decides, not_decided, technique, extra_assume=()):
    return {
        'rules': rules,
        'level_text': 'Static analysis of /repo\'s working tree (AST, statement CFG, typed call graph, ownership dataflow): every '
                      'instance of every rule serving this property is an obligation; all must be discharged. DECIDES: %s '
                      'DOES NOT DECIDE: %s' % (decides, not_decided),
        'level_note': 'Structural necessary conditions only, never the behaviour itself. Trusted base: CPython ast front end; the '
                      'classification tables frozen in /verif/sa/rules (each row one symbol, one reason); own receiver typing '
                      '(no mypy). ' + ' '.join(extra_assume),
        'technique': technique,
        'assumptions': _ASSUME + list(extra_assume),
    }


PROPERTIES.update({
    'C03': _p(['R-EQHASH', 'R-KEEP-PRED', 'R-PREFIX-PROTOCOL', 'R-AMBIG-INDEX', 'R-NODE-NAME', 'R-SENTINEL-SLOTS', 'R-SHALLOW-FORK', 'R-CONFIG-FORWARD', 'R-PARAM-FORWARD', 'R-PRIO-SIBLINGS', 'R-REPEAT-COUNT', 'R-FORMAT-ARITY'],
              'the predicates deciding whether a symbol stays in the tree agree (truth tables); generated helper names carry the prefix '
              'their consumers strip and users cannot define; wrapper-chain order matches the index computations; node names are '
              'computed identically by all engines; eq/hash contract of the CNF classes (CYK sets); child slots of the forest-to-tree '
              'conversion are tested only by identity with their sentinel (None / falsy children are kept).',
              'that shaping equals the documented function of the derivation for all grammars; agreement of engine results in general.',
              'AST sibling-agreement rules: truth-table comparison of extracted predicates, prefix protocol, eq/hash field sets'),
    'C04': _p(['R-NODECACHE', 'R-EQHASH', 'R-AMBIG-INDEX', 'R-SCAN-BUFFER', 'R-SENTINEL-SLOTS', 'R-PARAM-FORWARD', 'R-GUARD-SAME-SET', 'R-FLAG-DEFAULT'],
              'SPPF symbol nodes are unique per (symbol, start, end) label and every family is attached to the node of its own label; '
              'packed/token nodes hash consistently with equality; ambiguity-expander indices refer to the unfiltered expansion.',
              'completeness or soundness of the forest and of its expansion to trees.',
              'AST idiom/def-use rule over every SymbolNode creation site; eq/hash field sets'),
    'C05': _p(['R-ORDER-DET', 'R-PRIO-SIBLINGS', 'R-EQHASH', 'R-SORT-TOTAL', 'R-PARAM-FORWARD', 'R-NODECACHE'],
              'no order-sensitive consumer on the Earley path iterates a hash-ordered collection, the ordered-set switch is wired end to '
              'end, no id()/hash()/random in ordering; priority modes rewrite rules and terminals alike, max-aggregation matches the '
              'child order, both child slots contribute, the sort key is the documented one.',
              'optimality of the total priority over all derivations.',
              'typed iteration-site audit with consumer effect classification; sibling-branch agreement'),
    'C06': _p(['R-NEWLINE-PRED', 'R-POS-AFFINITY', 'R-META-TRIPLES', 'R-REPR-PARAM', 'R-PARAM-FORWARD', 'R-AMBIG-INDEX'],
              'every token that can contain LF has its newlines counted (the opt-out predicate is conservative); coordinates keep their '
              'family at every constructor/assignment, start is read before and end after the advance; LineCounter mutators re-establish '
              'column = char_pos - line_start_pos + 1, line += count, line_start_pos = last newline + 1 (linear normal forms); the dynamic '
              'scanner\'s running coordinates have the roles the token fields expect; meta propagation copies like to like; the newline '
              'character is chosen per representation.',
              'text[start:end] == token (regex semantics); nesting of spans for all grammars.',
              'argument-binding family check, CFG must-precede, linear-normal-form dataflow, predicate exhaustiveness table'),
    'C07': _p(['R-LEX-PRECEDENCE', 'R-SERIAL-NORM', 'R-SORT-TOTAL', 'R-OVERWRITTEN-STORE', 'R-PARAM-FORWARD', 'R-PREFIX-PROTOCOL', 'R-FORMAT-ARITY'],
              'the sort key is the documented precedence and the sorted list reaches the regex alternation unchanged (slice bounds of the '
              'chunking agree), for the basic lexer and every per-state lexer; the keyword exception is guarded by equal priority, a full '
              'match and a flag-subset test whose operands are sets on every construction path.',
              'tiling/coverage for all inputs; "contextual succeeds whenever basic does".',
              'sort-key normalisation against the documented order; def-use of the ordered list; guard extraction'),
    'C08': _p(['R-EXC-DISCIPLINE', 'R-POS-AFFINITY', 'R-TOKEN-NONE-TEST', 'R-SPLIT-TOTAL', 'R-ACCEPTS-PURE', 'R-SORT-TOTAL', 'R-IDENTITY-EQ', 'R-INDENT-PAIRING', 'R-PARAM-FORWARD', 'R-ONERROR-SKIP', 'R-CLASS-MUTABLE', 'R-TERM-NAME-PROTOCOL', 'R-FORMAT-ARITY', 'R-SCAN-BUFFER'],
              'every raise reachable from parse() is an UnexpectedInput or a tabled configuration/internal/documented class; no broad handler '
              'swallows; EOFError of next_token is caught by every caller; the offending token / current position is what the error carries; '
              '$END borrows the last token whenever there is one (identity test, not truthiness); no partial split index on the input path.',
              'earliest position; exactness of expected/allowed/accepts; implicit exceptions.',
              'call-graph reachability + raise-site classification table; Engler-style inconsistent-null-test rule'),
    'C10': _p(['R-SHARED-EFFECTS', 'R-PERCALL-ESCAPE', 'R-COMPILE-COPIES', 'R-POSTLEX-RESET', 'R-PARAM-FORWARD', 'R-CLASS-MUTABLE', 'R-FORMAT-ARITY', 'R-PRIO-SIBLINGS'],
              'the complete list of writes reachable from parse/lex/scan/parse_interactive and the interactive API, each classified by an '
              'ownership dataflow as per-call or shared; a shared write is accepted only as an atomic idempotent lazy publication; post-lexer '
              'state is reset (to its initial values) per stream.',
              'races inside user callbacks; interleaved consumption of two lex() generators sharing one Indenter.',
              'effect analysis over the typed call graph with an ownership (fresh/per-call/shared) dataflow'),
    'C11': _p(['R-SERIAL-AGREE', 'R-SERIAL-NORM', 'R-SERIAL-NS', 'R-LOAD-REAPPLY', 'R-LOAD-PURE', 'R-STANDALONE-CLOSURE', 'R-PARAM-FORWARD', 'R-CLASS-MUTABLE', 'R-CACHE', 'R-FORMAT-ARITY'],
              'a restored object has every attribute its post-load API reads, with the representation its constructor would have given it; '
              'the parse-table codec agrees on keys and tags; option-derived non-serialised state is re-derived at load; the generated '
              'stand-alone module is closed under name resolution for its supported API.',
              'value-level equality of tables after encode/decode for all grammars.',
              'constructor/deserialiser sibling agreement over attribute sets; static reconstruction of the generated module + name closure'),
    'C12': _p(['R-CACHE', 'R-LOAD-REAPPLY'],
              'what determines the key and that it is combined injectively; every option outside the key cannot shape the cached object or is '
              'covered; the file reaches _load only through header and used-files guards; any failure while reading falls back with the '
              'instance restored; the fall-back rewrites the file in the reader\'s record order.',
              'value-level equality of the loaded parser (C11); atomicity of the write beyond what the read-side fallback makes harmless.',
              'def-use/taint inside Lark.__init__, CFG dominance and must-pass-through, writer/reader agreement'),
    'C13': _p(['R-FORK-ALIAS', 'R-SHALLOW-FORK', 'R-TERM-NAME-PROTOCOL', 'R-ACCEPTS-PURE', 'R-COPY-COVERS', 'R-ONERROR-SKIP', 'R-PARAM-FORWARD', 'R-CLASS-MUTABLE', 'R-FORMAT-ARITY', 'R-EXC-DISCIPLINE'],
              'copies made by the fork API share no state that feeding or lexing writes and are coherent (one copied lexer thread in both '
              'places); shallow forks are only fed with tree-building callbacks off; the terminal/non-terminal classification used by '
              'accepts() and the expected set recognises every name the loader can produce.',
              '"resume equals parse" as a value-level statement; stateful user post-lexers shared by forks.',
              'copy audit (argument freshness / mutability via the written-class set), CFG dominance, string-shape producer/consumer check'),
    'C14': _p(['R-SCAN-PROGRESS', 'R-SHALLOW-FORK', 'R-LEX-PRECEDENCE', 'R-POS-AFFINITY', 'R-WINDOW-BOUNDS', 'R-PARAM-FORWARD', 'R-FORMAT-ARITY'],
              'the search position strictly increases per iteration (end of match / candidate + 1), ranges come from the matched tokens, the '
              'replay parser is fresh per match and fed exactly the accepted prefix then feed_eof(last), the exploratory parse runs without '
              'callbacks, candidates are searched among non-ignored terminals, the exploratory window carries the full text\'s line state.',
              'leftmost-longest, no-miss, equality with parse() of the substring.',
              'loop-progress rule on the CFG (must-pass-through an accepted position update), def-use of the yielded range'),
    'C15': _p(['R-REPR-PARAM', 'R-WINDOW-BOUNDS', 'R-POS-AFFINITY', 'R-SPLIT-ARMS', 'R-COPY-COVERS', 'R-LOAD-REAPPLY'],
              'no representation-specific constant touches input text outside an isinstance(bytes) split; every regex call on a window passes '
              'pos and the window end; loops are bounded by the end; counters start from the window. One unrepaired known finding: the start '
              'side (look-behind, ^, \\b see the buffer before the window).',
              'value-level equality of trees across representations.',
              'carrier-based constant-use audit; call-argument shape check with a semantics table for re\'s pos/endpos'),
    'C16': _p(['R-XFORM-PARITY', 'R-NODE-NAME', 'R-STANDALONE-CLOSURE', 'R-AMBIG-INDEX', 'R-PARAM-FORWARD', 'R-META-TRIPLES', 'R-FORMAT-ARITY'],
              'the four traversals and the embedded path implement the same dispatch, token guard (__visit_tokens__) and Discard filtering, '
              'children before parents; nodes are named identically at every site; the transformer classes work inside the generated module.',
              'equality of results for all grammars/transformers; once-per-node counting on DAGs.',
              'sibling feature extraction and comparison'),
    'C18': _p(['R-INDENT-PAIRING', 'R-INDENT-GRAMMAR', 'R-POSTLEX-RESET', 'R-SPLIT-TOTAL', 'R-TOKEN-NONE-TEST', 'R-PARAM-FORWARD', 'R-CLASS-MUTABLE', 'R-FORMAT-ARITY'],
              'one INDENT per push (guarded by width > top), one DEDENT per pop, drain to depth 1 at end of stream, nothing inside brackets, '
              'DedentError on a dedent to a closed column, width = spaces + tabs*tab_len after the last newline, state reset per stream, no '
              'partial string operation on the newline token, end-of-stream DEDENTs borrow the last token by identity test.',
              'agreement with CPython\'s tokenizer on inputs.',
              'structural push/pop pairing proof over the AST, comparison-operator extraction, reset-set inclusion'),
    'C20': _p(['R-VISIT-GUARD', 'R-NODECACHE', 'R-EQHASH', 'R-SCAN-BUFFER', 'R-GUARD-SAME-SET', 'R-AMBIG-INDEX'],
              'every push on the walk stack is preceded by the on-path test that diverts to on_cycle; enter/leave bookkeeping is paired; the loop '
              'ends only on stack exhaustion; visit_*_in overrides schedule only children of their node; node identity discipline as in C04.',
              'that the forest encodes exactly the derivations; is_ambiguous.',
              'guard-precedes-push rule, pairing rule, override audit'),
})

PROPERTIES.update({
    'C17': _p(['R-MANGLE-PROTOCOL', 'R-CONFIG-FORWARD', 'R-PREFIX-PROTOCOL', 'R-PARAM-FORWARD', 'R-FORMAT-ARITY', 'R-CACHE', 'R-NODE-NAME'],
              'the protocol every imported definition goes through: the mangled spelling keeps a leading underscore in front and prefixes the '
              'rest, aliases replace instead of prefix, an enclosing import\'s mangle is applied on top; a definition\'s name, each template '
              'parameter and every Symbol of (a copy of) its tree are mangled; renaming keeps a symbol\'s class and filter_out; every defining '
              'statement kind, %declare and nested imports pass the current mangle, %ignore applies at top level only; the imported text is '
              'loaded with the new mangle, pruned to the imported names, clashes with existing definitions are refused before merging; '
              'redefinition needs %override and %override needs a definition; the nested builder inherits the outer configuration; '
              'user names starting with "__" are refused.',
              'that the grammar so obtained accepts the same language and builds the same trees as the textually inlined one, for all ways of '
              'splitting a grammar (a semantic equality of two compilations); template instantiation (ApplyTemplates); %extend semantics.',
              'producer/consumer protocol rules over the loader: format-string shape, path conditions, argument binding'),
})

PROPERTIES.update({
    'C09': _p(['R-REPEAT-COUNT', 'R-PREFIX-PROTOCOL', 'R-IDENTITY-EQ', 'R-EARLEY-PROTOCOL', 'R-PRIO-SIBLINGS'],
              'the COUNT ALGEBRA of the repetition compiler, by abstract interpretation of the tree-building code (counts as integer '
              'intervals with polynomial end points, identities decided by normal form): _add_repeat_rule(a, b, target=T) builds a rule '
              'matching exactly a*T + b; _add_repeat_opt_rule builds one matching 0 .. a*T + b - 1 given an optional part matching 0 .. T - 1; '
              'the alternatives of every helper tile an interval (no gap, no overlap); small_factors(n) returns factors whose fold '
              'x -> x*a + b from 1 is n (induction over its returns; divisor >= 2); _generate_repeats(rule, mn, mx) returns a tree matching '
              'exactly mn .. mx on every path (naive arm, exact arm, factored arm with the loop invariant opt = 0 .. target - 1); '
              '`t: x | t x` matches 1 or more; EBNF_to_BNF.expr maps ? -> 0..1, + -> 1.., * -> 0.., ~n -> n, ~n..m -> n..m with the bounds '
              'in the right places and rejects only invalid bounds; cache keys name everything the helper tree depends on and the two '
              'helpers\' keys cannot coincide; _add_rule files the tree under the name it returns with the rule\'s options; inside terminals '
              'the inner regexp is grouped and followed by the operator, {n} or {n,m}; helper rule names are inlined ("__" prefix); trees are not '
              'compared by identity (`[x] * n` repeats one object); equal alternatives produced by multiplying out ? and ~n..m are merged; '
              'small_factors admits 0 and 1; NULLABLE is computed to a fixpoint (a large x~0..m is nullable only through helper rules filed after '
              'the user rules -- clause e9 of R-EARLEY-PROTOCOL, its other clauses do not count here); EBNF helper rules get fresh options carrying at most '
              'keep_all_tokens (a helper inheriting `?` is collapsed and splices an occurrence\'s children into the parent -- clause helper-options of R-PRIO-SIBLINGS).',
              'that the parsing engines match what the compiled rules denote (C01/C02); semantics of regex quantifiers (trusted: re); '
              'terminals that can match the empty string; order of children beyond the helper names being inlined.',
              'abstract interpretation over a count domain (intervals with polynomial bounds), path enumeration of the compiler functions, '
              'loop summaries by fold / invariant, polynomial normal forms'),
})

PROPERTIES.update({
    'C02': _p(['R-LALR-DRIVER', 'R-LALR-TABLE', 'R-TERM-NAME-PROTOCOL', 'R-EARLEY-PROTOCOL'],
              'clause-level necessary conditions of the LALR(1) construction and of its driver: the shift/reduce loop keeps the state stack and '
              'the value stack in lockstep (one push each per round, equal cuts on every path), reduces by len(rule.expansion) with the arguments '
              'read before and the goto looked up after the cut (row of the new top state, column of the rule\'s origin), consumes the token '
              'exactly on a shift and accepts only for $END with the end state on top; shift actions are the LR(0) transitions; competing '
              'reductions are resolved only by a strictly greater priority (descending sort, missing = 0), otherwise recorded and raised as '
              'GrammarError; a reduce action is stored only where there is no shift action; Follow = digraph(includes, digraph(reads, DR)) '
              'distributed through lookback; `includes` requires the rest of the rule to be nullable (every later position, to the end) and only '
              'relates non-terminal transitions formed before the walk advances; lookback pairs the final state of a rule walked from its start '
              'with that rule; DR = terminals after the transition, reads = nullable non-terminals after it, the start transition reads $END; the '
              'digraph traversal (unvisited successors first, smaller positive depth, union for every successor, whole-component pop); '
              'terminal names in expected sets come from the parse table.',
              'that the resulting automaton is the LALR(1) automaton of the grammar for all grammars (correctness of the LR(0) item sets, of the '
              'relations as a whole, of NULLABLE); that parse() accepts exactly the language; accepts()/choices() (C13).',
              'path-vector counting over the driver loop, statement-order and path-condition rules, clause-by-clause comparison of the relation '
              'builders with the DeRemer-Pennello definitions over the canonical form'),
})

PROPERTIES.update({
    'C01': _p(['R-EARLEY-PROTOCOL', 'R-SCAN-BUFFER', 'R-NODECACHE', 'R-GUARD-SAME-SET', 'R-FLAG-DEFAULT', 'R-EXC-DISCIPLINE', 'R-LEX-PRECEDENCE', 'R-PREFIX-PROTOCOL'],
              'the item protocol of the Earley recogniser, clause by clause (each a necessary condition of completeness or soundness): every item '
              'the predictor, both completer arms and the scanners produce is routed by `expect in TERMINALS` to a scan buffer, else to the Earley '
              'set being built -- inside predict_and_complete that set is the column being processed, the item is added only if not yet in that '
              'same set and goes on the agenda in the same block; the agenda starts from column i and runs empty; the completer advances every '
              'item of column item.start that expects the completed symbol with family (originator.node, item.node); completions with '
              'start == i are held per origin (fresh per call) and the predictor advances over held symbols; Item(rule, 0, i) for every predicted '
              'rule; every scan-buffer item is offered the input, a match advances it, the token scanner\'s node ends at i + 1, one fresh set is '
              'appended per step; predict_and_complete(i) before scan(i), i += 1, one final predict_and_complete; Item(rule, 0, 0) for the start '
              'rules; success iff the last column holds a complete start item from 0 with a node; prediction closure over first non-terminals; '
              'NULLABLE as a least fixed point; the dynamic scanner carries the whole scan buffer (and, separately, completed start items) over '
              'ignored text; rejection exactly when nothing survives a step; complete_lex is off unless asked for.',
              'that the recogniser accepts exactly L(G) for all grammars and inputs (functional correctness of the chart algorithm as a whole, '
              'the Leo optimisation, regular-expression matching of terminals, the longest-match restriction of the dynamic lexer); that '
              'construction never hangs.',
              'routing-site extraction and sibling agreement over the producers of items, path conditions, statement-order rules over the main loop'),
})

PROPERTIES.update({
    'C19': _p(['R-RECONS-PROTOCOL', 'R-KEEP-PRED'],
              'the protocol the round trip rests on: the matching rules are built from a rule\'s expansion minus exactly the symbols for which '
              'is_discarded_terminal (= is_term and filter_out) holds, and the writer puts a literal back exactly for those symbols (same '
              'function, opposite polarity); the writer walks meta.orig_expansion in order and in every round either writes one literal or takes '
              'exactly one child from the iterator over the node\'s children (path vectors), splices a list child and appends any other, and '
              'checks afterwards that every child was used; make_recons_rule receives (filtered expansion, the rule\'s own expansion) and '
              '_MakeTreeMatch marks the node match_tree = True with that original expansion, which is what the writer tests; a literal is '
              'term_subs[name](sym) or else the value of a string pattern (regexps refused); symbols stay non-terminals in matching rules iff '
              'their rule is inlined / expand1 / aliased and the same tests route the rule; _reconstruct yields every written item once in '
              'order, recursing into sub-trees; reconstruct() joins in order with one blank exactly between two identifier characters.',
              'that reconstruct(parse(text)) re-parses to an equal tree for every grammar of the supported class (value-level round trip); the '
              'choice among several matching rules (_best_from_group); the Earley match of the children; postproc.',
              'producer/consumer sibling agreement on one predicate, path-vector counting over the writer\'s loop, truth-table comparison of '
              'the routing conditions'),
})


NOT_APPLICABLE = {
}


# clauses added during the seeded-change campaigns (DESIGN §3.9): appended to what each check says it decides
_EXTRA_DECIDES = {
    'C03': 'Also: child slots of the forest-to-tree conversion are tested only by identity with their sentinel; nested builders receive the '
           'outer builder\'s configuration; rule modifiers are membership tests; the ambiguity product expands exactly the collected set; '
           'shallow forks are never fed with callbacks on.',
    'C04': 'Also: the scan buffer is read-only and carried whole over ignored text; the dynamic_complete prefix loop has no early exit and files '
           'each match under its own end; sentinel-guarded slots.',
    'C05': 'Also: every compiled rule owns its RuleOptions; helper rules carry no priority; symbol nodes start at the identity of the aggregation; '
           'edit_terminals precedes the priority mode; keyed orderings compare one comparable kind; eq/hash of forest nodes.',
    'C06': 'Also: token coordinates are copied from measured ones, never computed from lengths.',
    'C07': 'Also: the width that orders terminals is measured on the expression that is compiled; no conditional callback registration is '
           'overwritten by the next statement; keyed orderings are total.',
    'C08': 'Also: accepts()/choices() are pure; keyed orderings on the error path are total; no identity comparison between wrappers that define '
           'equality; the Indenter hands a token on before asserting about it.',
    'C10': 'Also: no long-lived field holds per-call machinery; Grammar.compile deep-copies the trees it rewrites; the post-lexer is applied to '
           'every stream and reset with fresh objects.',
    'C11': 'Also: loading does not write into its input; class-level defaults that carry data are serialised; command-line switches of the '
           'generator are forwarded.',
    'C12': 'Also: options leave the key only by name; loaders in import_paths print all their fields; FS.open keeps the mode; the cache path is '
           'fixed before the load attempt.',
    'C13': 'Also: hand-written copies cover every field that changes, deep copies are unconditional, the state copy keeps its lexer recognisable; '
           'accepts() is pure.',
    'C14': 'Also: the contextual lexer searches with the lexer of the start state; window bounds (strict negative normalisation, exact '
           'is_complete_text).',
    'C15': 'Also: the line counter is only fed pieces of the input; twin arms of representation splits agree; one known finding (look-behind at '
           'the window start).',
    'C16': 'Also: the embedded calling convention equals _call_userfunc\'s (one known finding: Transformer_InPlace without v_args), adapters are '
           'transparent, a v_args wrapper takes precedence whatever the transformer class; token callbacks reach the parser unadapted; '
           '?rule inlining tests exactly len == 1.',
    'C18': 'Also: only indentation is measured; python.lark\'s newline terminal captures the counted characters and absorbs ignored comments; '
           'INDENT/DEDENT are declared, bracket types pair up; the post-lexer is always applied and reset with fresh objects.',
    'C20': 'Also: success marks are consumed by the node they were set for; id-keyed tables are renewed per walk; the scan buffer is read-only.',
}
for _prop, _txt in _EXTRA_DECIDES.items():
    PROPERTIES[_prop]['level_text'] = PROPERTIES[_prop]['level_text'].replace(' DOES NOT DECIDE:', ' ' + _txt + ' DOES NOT DECIDE:')

# clauses of rules that mainly serve other properties, shown under these as well (the finding carries the property; the rule's other
# clauses do not count here)
_CROSS_CLAUSES = {
    'C08': 'Cross-listed clause: the consumer of the carried-solutions table empties it (otherwise the dynamic Earley scanner never finds '
           '"nothing left" and never rejects).',
    'C10': 'Cross-listed clause: every compiled Rule gets its own RuleOptions object (a second compile must not see what the first one negated).',
    'C13': 'Cross-listed clause: resume_parse hands the lexer state\'s last token to parse_from_state.',
    'C15': 'Cross-listed clause: use_bytes given when loading is read on the load path.',
    'C17': 'Cross-listed clauses: verify_used_files compares every recorded import with its digest; both tree builders name a template '
           'instance by its template source.',
}
for _prop, _txt in _CROSS_CLAUSES.items():
    PROPERTIES[_prop]['level_text'] = PROPERTIES[_prop]['level_text'].replace(' DOES NOT DECIDE:', ' ' + _txt + ' DOES NOT DECIDE:')
