"""Forest rules [C04 C20].

R-NODECACHE    every SPPF symbol node is created through the per-column node cache keyed by its label, the
               label's symbol is the item's own `s`, its start is the item's start, its end is uniform per
               function, and families are attached to the node of their own label.
R-VISIT-GUARD  ForestVisitor.visit never pushes a node that is already on the current path (on_cycle is
               called instead), in/out bookkeeping is paired, and visit_*_in overrides only schedule
               children of the node they receive.
"""
from __future__ import annotations

import ast
from typing import Dict, List, Optional, Set, Tuple

from ..model import Repo, ClassInfo, FuncInfo, AnalysisError, norm, parent, ancestors, enclosing_stmt, const_str
from ..exprs import path_conditions, sym_norm
from ..report import Ctx, RuleResult
from ..exprs import linear, lin_str

SCOPE = ['lark.parsers.earley:Parser.predict_and_complete', 'lark.parsers.earley:Parser._parse.scan',
         'lark.parsers.xearley:Parser._parse.scan']


def _leo_dead(repo: Repo) -> Tuple[bool, str]:
    """The Joop-Leo branch is guarded by membership in transitives[...]; no code ever stores into those dicts."""
    stores = []
    for fq in ('lark.parsers.earley:Parser.predict_and_complete', 'lark.parsers.earley:Parser._parse', 'lark.parsers.earley:Parser._parse.scan',
               'lark.parsers.xearley:Parser._parse', 'lark.parsers.xearley:Parser._parse.scan', 'lark.parsers.earley:Parser.parse'):
        f = repo.func(fq)
        for n in f.body_nodes():
            if isinstance(n, (ast.Assign, ast.AugAssign)):
                tg = n.targets if isinstance(n, ast.Assign) else [n.target]
                for t in tg:
                    if isinstance(t, ast.Subscript) and 'transitives' in norm(t.value):
                        stores.append(norm(n))
            if isinstance(n, ast.Call) and isinstance(n.func, ast.Attribute) and 'transitives[' in norm(n.func.value) \
                    and n.func.attr in ('update', 'setdefault', '__setitem__'):
                stores.append(norm(n))
    return (not stores), ('no store into transitives[...] exists' if not stores else 'stores: %s' % stores[:2])


def run_nodecache(ctx: Ctx) -> RuleResult:
    repo = ctx.repo
    res = RuleResult('R-NODECACHE', 'SPPF symbol nodes are unique per label and families are attached to the node of their own label')
    dead, why = _leo_dead(repo)
    res.ob('lark/parsers/earley.py', 'the Joop-Leo completer branch is dead (%s)' % why, True)
    res.tables['leo_branch_dead'] = dead
    n_sites = 0
    for fq in SCOPE:
        f = repo.func(fq)
        ends: Set[str] = set()
        # constructions of symbol nodes
        for n in f.body_nodes():
            if not (isinstance(n, ast.Call) and norm(n.func) == 'self.SymbolNode'):
                continue
            # exempt: inside the Leo branch when it is dead
            leo = any(isinstance(a, ast.If) and 'transitives[' in norm(a.test) and any(n is x for s in a.body for x in ast.walk(s))
                      for a in ancestors(n))
            site = '%s %s' % (f.loc(n), f.qual)
            if leo and dead:
                res.ob(site, 'symbol node creation inside the dead Leo branch: exempt', True)
                continue
            n_sites += 1
            st = enclosing_stmt(n)
            # idiom: X.node = cache[label] if label in cache else cache.setdefault(label, self.SymbolNode(*label))
            p = parent(n)
            ok = isinstance(p, ast.Call) and isinstance(p.func, ast.Attribute) and p.func.attr == 'setdefault' and len(p.args) == 2 \
                and p.args[1] is n and len(n.args) == 1 and isinstance(n.args[0], ast.Starred) and norm(n.args[0].value) == norm(p.args[0])
            res.ob(site, 'the node is created as the default of <cache>.setdefault(label, SymbolNode(*label))', ok)
            if not ok:
                res.finding(f, st, 'a symbol node is created outside the node cache: two nodes with the same label can exist and their '
                            'families are split between them', construct='uncached:' + norm(n))
                continue
            cache = norm(p.func.value)
            label_var = norm(p.args[0])
            ok = isinstance(st, ast.Assign) and len(st.targets) == 1 and isinstance(st.targets[0], ast.Attribute) and st.targets[0].attr == 'node'
            if not ok:
                res.ob(site, 'the cached node is stored in <item>.node', False)
                res.finding(f, st, 'the cached symbol node is not stored in the item it belongs to', construct='node-store')
                continue
            item = norm(st.targets[0].value)
            # whole value: cache[label] if label in cache else cache.setdefault(...)
            v = st.value
            ok = isinstance(v, ast.IfExp) and norm(v.test) == '%s in %s' % (label_var, cache) and norm(v.body) == '%s[%s]' % (cache, label_var) \
                and v.orelse is p
            ok = ok or (v is p and not isinstance(parent(st), ast.If))
            # the same in statement form: if label in cache: X.node = cache[label] else: X.node = cache.setdefault(...)
            outer_if = parent(st)
            if v is p and isinstance(outer_if, ast.If):
                from ..exprs import cond_values
                cv = [c for c in cond_values([outer_if]) if c[0] == norm(st.targets[0])]
                ok = bool(cv) and norm(cv[0][1]) == '%s in %s' % (label_var, cache) and norm(cv[0][2]) == '%s[%s]' % (cache, label_var) \
                    and cv[0][3] is p
                if cv:
                    st = outer_if           # the label is defined before, the family added after, the whole conditional
            res.ob(site, 'lookup and creation use the same cache and the same label', ok)
            if not ok:
                res.finding(f, st, 'the cache lookup and the creation disagree on cache or label', construct='cache-mismatch')
            # the label definition just before
            blk = getattr(parent(st), 'body', None)
            lab = None
            for cand in _preceding(st):
                if isinstance(cand, ast.Assign) and norm(cand.targets[0]) == label_var:
                    lab = cand
                    break
            ok = lab is not None and isinstance(lab.value, ast.Tuple) and len(lab.value.elts) == 3
            if not ok:
                res.ob(site, 'label is a (symbol, start, end) triple defined just before', False)
                res.finding(f, st, 'cannot find the (s, start, end) label of this node', construct='label')
                continue
            s_e, st_e, en_e = lab.value.elts
            ok = norm(s_e) == item + '.s'
            res.ob(site, 'label symbol is the item\'s own s (%s)' % norm(s_e), ok)
            if not ok:
                res.finding(f, lab, 'the node stored in %s.node is labelled with %s, not with %s.s: families of different symbols '
                            'are merged into one node' % (item, norm(s_e), item), construct='label-symbol:' + norm(s_e))
            # start: item.start, or src.start where item = src.advance()
            srcs = {item}
            for cand in _preceding(st):
                if isinstance(cand, ast.Assign) and norm(cand.targets[0]) == item and isinstance(cand.value, ast.Call) \
                        and isinstance(cand.value.func, ast.Attribute) and cand.value.func.attr == 'advance':
                    srcs.add(norm(cand.value.func.value))
                    break
            ok = norm(st_e) in {x + '.start' for x in srcs}
            res.ob(site, 'label start is the item\'s start (%s)' % norm(st_e), ok)
            if not ok:
                res.finding(f, lab, 'the label\'s start %s is not the start of the item the node belongs to' % norm(st_e),
                            construct='label-start:' + norm(st_e))
            ends.add(lin_str(linear(en_e)))
            # add_family on that node with the item's own s
            fam = None
            for cand in _following(st):
                if isinstance(cand, ast.Expr) and isinstance(cand.value, ast.Call) and norm(cand.value.func) == item + '.node.add_family':
                    fam = cand.value
                    break
                if isinstance(cand, ast.For):
                    for x in ast.walk(cand):
                        if isinstance(x, ast.Call) and norm(x.func) == item + '.node.add_family':
                            fam = x
                    if fam:
                        break
            ok = fam is not None and fam.args and norm(fam.args[0]) == item + '.s'
            res.ob(site, 'the family is added to %s.node under the symbol %s.s' % (item, item), ok)
            if not ok:
                res.finding(f, st, 'the derivation is not attached to the node of its own label (%s.node.add_family(%s.s, ...))' % (item, item),
                            construct='family:' + (norm(fam)[:60] if fam is not None else 'none'))
        # merging the families of a carried-over node: rule, left and right all come from the same child
        for n in f.body_nodes():
            if isinstance(n, ast.For) and norm(n.iter).endswith('.node.children') and isinstance(n.target, ast.Name):
                cv = n.target.id
                for x in ast.walk(n):
                    if isinstance(x, ast.Call) and norm(x.func).endswith('.node.add_family') and len(x.args) >= 5:
                        ok = norm(x.args[1]) == cv + '.rule' and norm(x.args[3]) == cv + '.left' and norm(x.args[4]) == cv + '.right'
                        res.ob('%s %s' % (f.loc(x), f.qual), 'a merged family keeps its own rule, left and right (%s.rule/.left/.right)' % cv, ok)
                        if not ok:
                            res.finding(f, enclosing_stmt(x), 'when the families of a carried-over node are merged, rule/left/right are not all '
                                        'taken from the same packed child: derivations are attributed to the wrong rule',
                                        construct='merge-family:' + norm(x)[:90])
        # elsewhere the family's rule is the rule of the item that was advanced
        for n in f.body_nodes():
            if isinstance(n, ast.Call) and norm(n.func).endswith('.node.add_family') and len(n.args) >= 2 \
                    and not any(isinstance(a, ast.For) and norm(a.iter).endswith('.node.children') for a in ancestors(n)):
                leo = any(isinstance(a, ast.If) and 'transitives[' in norm(a.test) for a in ancestors(n))
                if leo and dead:
                    continue
                item0 = norm(n.func)[:-len('.node.add_family')]
                ok = norm(n.args[1]).endswith('.rule') and norm(n.args[1])[:-5] in (item0, 'item', 'new_item', 'originator')
                res.ob('%s %s' % (f.loc(n), f.qual), 'the family\'s rule is the advanced item\'s rule (%s)' % norm(n.args[1]), ok)
                if not ok:
                    res.finding(f, enclosing_stmt(n), 'add_family is given %s as the rule of the derivation' % norm(n.args[1]),
                                construct='family-rule:' + norm(n.args[1]))
        ok = len(ends) <= 1
        res.ob('%s %s' % (f.loc(), f.qual), 'label end component is uniform in this function: %s' % sorted(ends), ok)
        if not ok:
            res.finding(f, f.node, 'symbol nodes created in one step carry different end positions %s' % sorted(ends), construct='label-end')
        want = {'lark.parsers.earley:Parser.predict_and_complete': 'i'}.get(fq, 'i +1')
        if ends:
            ok = ends == {want}
            res.ob('%s %s' % (f.loc(), f.qual), 'label end is %s (the column being built)' % want, ok)
            if not ok:
                res.finding(f, f.node, 'symbol nodes of this step end at %s, expected %s' % (sorted(ends), want), construct='label-end-value')
    res.require_instances(n_sites, 6, 'live symbol-node creation sites')
    # a fresh node cache per column
    for fq in ('lark.parsers.earley:Parser._parse.scan', 'lark.parsers.xearley:Parser._parse.scan'):
        f = repo.func(fq)
        ok = any(isinstance(n, ast.Assign) and norm(n.targets[0]) == 'node_cache' and isinstance(n.value, ast.Dict) and not n.value.keys
                 for n in f.body_nodes()) and any(isinstance(n, ast.Return) and 'node_cache' in norm(n.value) for n in f.body_nodes()
                                                  if isinstance(n, ast.Return) and n.value is not None)
        res.ob('%s %s' % (f.loc(), f.qual), 'each column gets its own node cache, handed to the completer of that column', ok)
        if not ok:
            res.finding(f, f.node, 'the node cache is not renewed per column / not handed on', construct='cache-per-column')
    # PackedNode identity: families are deduplicated by (left, right) within a node
    sn = repo.cls('lark.parsers.earley_forest:SymbolNode')
    af = sn.methods['add_family']
    ok = any(isinstance(n, ast.Call) and norm(n.func) == 'self._children.add' and 'PackedNode(self, lr0, rule, start, left, right)' in norm(n)
             for n in af.body_nodes())
    res.ob('%s %s' % (af.loc(), af.qual), 'families are added to a set of packed nodes (duplicates collapse)', ok)
    if not ok:
        res.finding(af, af.node, 'add_family no longer adds PackedNode(self, lr0, rule, start, left, right) to the children set', construct='add_family')
    return res


def _preceding(st: ast.stmt):
    p = parent(st)
    for field in ('body', 'orelse', 'finalbody'):
        b = getattr(p, field, None)
        if isinstance(b, list) and st in b:
            i = b.index(st)
            for x in reversed(b[:i]):
                yield x
            # continue in the enclosing block
            if isinstance(p, ast.stmt) and not isinstance(p, (ast.FunctionDef, ast.AsyncFunctionDef)):
                yield from _preceding(p)
            return


def _following(st: ast.stmt):
    p = parent(st)
    for field in ('body', 'orelse', 'finalbody'):
        b = getattr(p, field, None)
        if isinstance(b, list) and st in b:
            i = b.index(st)
            for x in b[i + 1:]:
                yield x
            return


# ------------------------------------------------------------------------------------------------
def run_visit_guard(ctx: Ctx) -> RuleResult:
    repo = ctx.repo
    res = RuleResult('R-VISIT-GUARD', 'forest walks terminate on cyclic forests: no node already on the path is pushed; cycles go to on_cycle')
    f = repo.func('lark.parsers.earley_forest:ForestVisitor.visit')
    site = '%s %s' % (f.loc(), f.qual)
    loops = [n for n in f.node.body if isinstance(n, ast.While)]
    ok = len(loops) == 1 and norm(loops[0].test) == 'input_stack'
    res.ob(site, 'the walk is one loop that runs while the explicit stack is non-empty', ok)
    if not ok:
        res.finding(f, f.node, 'ForestVisitor.visit is not a single `while input_stack` loop', construct='loop')
        return res
    loop = loops[0]
    # alias of on_cycle
    oc = {'self.on_cycle'}
    for n in f.body_nodes():
        if isinstance(n, ast.Assign) and isinstance(n.value, ast.Call) and norm(n.value.func) == 'getattr' and len(n.value.args) >= 2 \
                and const_str(n.value.args[1]) == 'on_cycle':
            oc.add(norm(n.targets[0]))
        if isinstance(n, ast.Assign) and isinstance(n.value, ast.Attribute) and n.value.attr == 'on_cycle' and len(n.targets) == 1:
            oc.add(norm(n.targets[0]))
    oc.add('%s.on_cycle' % (f.self_name() or 'self'))
    pushes = [n for n in ast.walk(loop) if isinstance(n, ast.Call) and norm(n.func) == 'input_stack.append']
    res.require_instances(len(pushes), 2, 'pushes onto the walk stack')
    pushes.sort(key=lambda c: (c.lineno, c.col_offset))
    for p_i, p in enumerate(pushes, 1):
        st = enclosing_stmt(p)
        arg = norm(p.args[0])
        guarded = False
        iter_ok = False
        for prev in _preceding(st):
            if isinstance(prev, ast.If):
                # the guard may sit in an elif arm or nested in the arm that handles forest nodes: every `if` of the statement
                chain = [x for x in ast.walk(prev) if isinstance(x, ast.If)]
                for c in chain:
                    t = norm(c.test)
                    if t == 'id(%s) in visiting' % arg:
                        calls = [x for s in c.body for x in ast.walk(s) if isinstance(x, ast.Call) and norm(x.func) in oc
                                 and x.args and norm(x.args[0]) == arg]
                        cont = any(isinstance(s, ast.Continue) for s in c.body)
                        if calls and cont:
                            guarded = True
                    if 'isinstance(%s, ForestNode)' % arg in t and any(norm(s) == '%s = iter(%s)' % (arg, arg) for s in c.body):
                        iter_ok = True
                if guarded:
                    break
        res.ob(f.loc(p), 'push of %s is preceded by `if id(%s) in visiting: on_cycle(...); continue`' % (arg, arg), guarded)
        if not guarded:
            res.finding(f, st, 'a node is pushed on the walk stack without checking whether it is already on the current path: the walk '
                        'does not terminate on cyclic forests (and on_cycle is never called)', construct='unguarded-push#%d:%s' % (p_i, arg))
    # in/out pairing
    adds = [n for n in ast.walk(loop) if isinstance(n, ast.Call) and norm(n.func) == 'visiting.add']
    rems = [n for n in ast.walk(loop) if isinstance(n, ast.Call) and norm(n.func) in ('visiting.remove', 'visiting.discard')]
    pa = [n for n in ast.walk(loop) if isinstance(n, ast.Call) and norm(n.func) == 'path.append']
    pp = [n for n in ast.walk(loop) if isinstance(n, ast.Call) and norm(n.func) == 'path.pop']
    ok = len(adds) == 1 and len(rems) == 1 and len(pa) == 1 and len(pp) == 1 and norm(adds[0].args[0]) == norm(rems[0].args[0])
    if ok:
        # both inside the same if/elif/else on `<id> in visiting`: remove in the true arm, add in the false arm
        key = norm(adds[0].args[0])
        arms = [a for a in ancestors(enclosing_stmt(rems[0])) if isinstance(a, ast.If) and norm(a.test) == '%s in visiting' % key]
        ok = bool(arms) and any(adds[0] is x for s in arms[0].orelse for x in ast.walk(s)) \
            and any(pp[0] is x for s in arms[0].body for x in ast.walk(s)) and any(pa[0] is x for s in arms[0].orelse for x in ast.walk(s)) \
            and any(isinstance(x, ast.Call) and norm(x.func) == 'input_stack.pop' for s in arms[0].body for x in ast.walk(s))
    res.ob(site, 'entering a node adds it to visiting/path, leaving it removes it and pops the stack', ok)
    if not ok:
        res.finding(f, loop, 'the visiting/path bookkeeping is not paired between entering and leaving a node', construct='pairing')
    # no break / return inside the loop
    esc = [n for n in ast.walk(loop) if isinstance(n, (ast.Break, ast.Return))]
    ok = not esc
    res.ob(site, 'the loop ends only when the stack is exhausted', ok)
    if not ok:
        res.finding(f, esc[0], 'the walk can end before the stack is exhausted', construct='early-exit')
    # visited set for single_visit
    ok = any(isinstance(n, ast.Call) and norm(n.func) == 'visited.add' for n in ast.walk(loop))
    res.ob(site, 'finished nodes are recorded (single_visit)', ok)
    if not ok:
        res.finding(f, loop, 'finished nodes are not recorded in visited', construct='visited')
    # overrides of visit_*_in schedule only children of the node they get
    base = repo.cls('lark.parsers.earley_forest:ForestVisitor')
    allowed = {'node.children', 'iter(node.children)', 'node.left', 'node.right', 'None', 'to_visit'}
    n_over = 0
    for k in [base] + base.all_subclasses():
        for mname in ('visit_symbol_node_in', 'visit_packed_node_in', 'visit_intermediate_node_in'):
            m = k.methods.get(mname)
            if m is None:
                continue
            n_over += 1
            outs = []
            for n in m.body_nodes():
                if isinstance(n, ast.Return) and n.value is not None:
                    outs.append(norm(n.value))
                if isinstance(n, ast.Yield) and n.value is not None:
                    outs.append(norm(n.value))
            # a local that holds what the super implementation scheduled is as good as that
            nparam = m.positional_names()[0] if m.positional_names() else 'node'
            from_super = {norm(n.targets[0]) for n in m.body_nodes() if isinstance(n, ast.Assign) and len(n.targets) == 1
                          and isinstance(n.targets[0], ast.Name) and 'super(' in norm(n.value) and '.' + mname + '(' in norm(n.value)}
            ok_set = {a.replace('node', nparam) for a in allowed} | from_super
            bad = [o for o in outs if o not in ok_set]
            ok = not bad
            res.ob('%s %s' % (m.loc(), m.qual), 'schedules only children of the node it receives (%s)' % outs, ok)
            if not ok:
                res.finding(m, m.node, '%s schedules %s, which is not a child of the node being entered: the explored graph is no longer '
                            'the (finite) forest' % (m.qual, bad), construct='schedules:' + ','.join(bad))
    res.require_instances(n_over, 8, 'visit_*_in implementations')
    # ForestToParseTree: cycle retreat state
    ftp = repo.cls('lark.parsers.earley_forest:ForestToParseTree')
    ocm = ftp.methods.get('on_cycle')
    ok = ocm is not None and any(norm(n) == 'self._on_cycle_retreat = True' for n in ocm.body_nodes() if isinstance(n, ast.Assign))
    res.ob('%s %s' % (ocm.loc() if ocm else '', 'ForestToParseTree.on_cycle'), 'a cycle starts a retreat (the cyclic family is discarded, not looped over)', ok)
    if not ok:
        res.finding(ocm or ftp.qual, ocm.node if ocm else ftp.node, 'ForestToParseTree.on_cycle no longer starts a retreat', construct='retreat',
                    module=ftp.module)
    # "visited successfully" marks are consumed by the node they were set for: a node can be reached again (shared
    # sub-forest, a nullable rule derived twice at one position), and a stale mark makes `resolve` discard all its
    # packed children on the second visit.  Every transform_* that is gated by the mark removes it.
    from ..exprs import find_pat
    marks = set()
    for m in ftp.swept_methods():
        for c, b_ in find_pat(m.body_nodes(), '$me.$attr.add(id($n.parent))'):
            marks.add(b_['attr'])
    n_gate = 0
    for attr in sorted(marks):
        for m in ftp.swept_methods():
            gate = find_pat(m.body_nodes(), 'if id($n) not in $me.%s:\n    return Discard' % attr)
            if not gate:
                continue
            n_gate += 1
            node_var = gate[0][1]['n']
            from ..model import core_stmts
            mbody = core_stmts(m.node.body)
            rem = [st for st in mbody if isinstance(st, ast.Expr) and (
                find_pat([st.value], '$me.%s.remove(id($n))' % attr, {'n': node_var})
                or find_pat([st.value], '$me.%s.discard(id($n))' % attr, {'n': node_var}))]
            ok = len(rem) == 1
            if ok:
                before = mbody[:mbody.index(rem[0])]
                # only guards (if ...: return) and plain assignments may precede the removal
                ok = all(isinstance(st, (ast.If, ast.Assign)) or (isinstance(st, ast.Expr) and isinstance(st.value, ast.Constant)) for st in before) \
                    and all(all(isinstance(b, ast.Return) for b in st.body) and not st.orelse for st in before if isinstance(st, ast.If))
            res.ob('%s %s' % (m.loc(), m.qual), 'the success mark of the node is removed once the node is transformed (self.%s)' % attr, ok)
            if not ok:
                res.finding(m, m.node, '%s is gated by the success mark self.%s but does not remove it on the way out: when the same node is '
                            'transformed again its packed children are all discarded (resolve mode) -- IndexError / missing subtree for '
                            'forests that share the node' % (m.name, attr), construct='mark-not-consumed:' + m.name)
    res.require_instances(n_gate, 2, 'transform functions gated by the success mark')
    # memo tables keyed by id(node) do not outlive the walk: ids are recycled once a forest is garbage collected, so a table that
    # survives `visit` serves entries of a dead forest to the next one
    idkeyed = set()
    for m in ftp.swept_methods():
        for c, b_ in find_pat(m.body_nodes(), '$me.$attr[id($n)]') + find_pat(m.body_nodes(), 'id($n) in $me.$attr'):
            # dict-like tables only (subscripted somewhere)
            if find_pat([x for mm in ftp.swept_methods() for x in mm.body_nodes()], '$me.%s[id($n)]' % b_['attr']):
                idkeyed.add(b_['attr'])
    vis = ftp.methods.get('visit')
    n_tab = 0
    for attr in sorted(idkeyed):
        n_tab += 1
        ok = vis is not None and any(isinstance(a, ast.Assign) and len(a.targets) == 1 and norm(a.targets[0]).endswith('.' + attr)
                                     and isinstance(a.value, (ast.Dict, ast.Call)) for a in vis.body_nodes())
        res.ob('%s %s' % (vis.loc() if vis else '', 'ForestToParseTree.visit'), 'the id-keyed table self.%s is renewed by every walk' % attr, ok)
        if not ok:
            res.finding(vis or ftp.qual, vis.node if vis else ftp.node, 'the table self.%s, keyed by id(node), is not renewed in visit(): a transformer '
                        'object used for a second forest can hit entries of the first (ids are recycled after garbage collection) -- wrong, '
                        'missing or duplicated subtrees' % attr, construct='id-table-not-renewed:' + attr, module=ftp.module)
    res.require_instances(n_tab, 1, 'id-keyed tables of ForestToParseTree')
    # ForestTransformer.transform starts from an empty result slot every time (the object is reused for several forests)
    ftc = repo.cls('lark.parsers.earley_forest:ForestTransformer')
    ftt = ftc.methods.get('transform')
    if ftt is not None:
        sn_t = ftt.self_name() or 'self'
        slot = [a for a in ftt.node.body if isinstance(a, ast.Assign) and len(a.targets) == 1 and isinstance(a.targets[0], ast.Subscript)
                and norm(a.targets[0].value) == '%s.data' % sn_t and isinstance(a.value, (ast.List, ast.Call)) and (not isinstance(a.value, ast.List) or not a.value.elts)]
        visits = [s_ for s_ in ftt.node.body if isinstance(s_, ast.Expr) and isinstance(s_.value, ast.Call) and norm(s_.value.func) == '%s.visit' % sn_t]
        ok = len(slot) == 1 and len(visits) == 1 and slot[0].lineno < visits[0].lineno
        res.ob('%s %s' % (ftt.loc(), ftt.qual), 'transform() assigns a fresh, empty result slot before it walks the forest', ok)
        if not ok:
            res.finding(ftt, ftt.node, 'ForestTransformer.transform no longer assigns an empty list to its result slot before the walk: a transformer used for a second '
                        'forest starts with the result of the first', construct='transform-result-reset')
    # the helper handed to on_cycle users: the slice starts at the node that closes the cycle (the position the search stopped at)
    gc_ = repo.func('lark.parsers.earley_forest:ForestVisitor.get_cycle_in_path')
    pn_ = gc_.positional_names()
    rets = [r for r in gc_.body_nodes() if isinstance(r, ast.Return) and r.value is not None]
    whiles = [w for w in gc_.body_nodes() if isinstance(w, ast.While)]
    ok = len(rets) == 1 and len(whiles) == 1 and len(pn_) >= 2
    why = 'shape not understood'
    if ok:
        from ..exprs import linear, lin_str
        idx = [x.slice for x in ast.walk(whiles[0].test) if isinstance(x, ast.Subscript) and norm(x.value) == pn_[1]]
        rv = rets[0].value
        ok = len(idx) == 1 and isinstance(rv, ast.Subscript) and norm(rv.value) == pn_[1] and isinstance(rv.slice, ast.Slice) \
            and rv.slice.upper is None and rv.slice.step is None and rv.slice.lower is not None \
            and linear(rv.slice.lower) is not None and linear(rv.slice.lower) == linear(idx[0])
        why = 'the search stops at %s[%s], the slice returned is %s' % (pn_[1], norm(idx[0]) if idx else '?', norm(rv))
    res.ob('%s %s' % (gc_.loc(), gc_.qual), 'get_cycle_in_path returns the path from the node that closes the cycle onwards', ok)
    if not ok:
        res.finding(gc_, rets[0] if rets else gc_.node, 'get_cycle_in_path does not return the path from the found node onwards (%s): the cycle handed '
                    'to on_cycle users lacks the node that closes it, or holds nodes outside the cycle' % why, construct='cycle-slice')
    # a packed node is iterated left child first (children of a derivation keep input order)
    pk = repo.cls('lark.parsers.earley_forest:PackedNode')
    it_ = pk.methods.get('__iter__')
    if it_ is not None:
        ys = [norm(y.value) for y in it_.body_nodes() if isinstance(y, ast.Yield) and y.value is not None]
        sn_ = it_.self_name() or 'self'
        ok = ys == ['%s.left' % sn_, '%s.right' % sn_]
        res.ob('%s %s' % (it_.loc(), it_.qual), 'PackedNode.__iter__ yields the left child, then the right one', ok)
        if not ok:
            res.finding(it_, it_.node, 'PackedNode.__iter__ yields %s: visitors that return iter(node) walk a derivation right to left, children come '
                        'out in reverse input order' % ys, construct='packed-iter-order')
    ch_ = pk.methods.get('children')
    if ch_ is not None:
        sn_ = ch_.self_name() or 'self'
        refs = sorted(((a.lineno, a.col_offset, a.attr) for a in ch_.body_nodes() if isinstance(a, ast.Attribute) and a.attr in ('left', 'right')
                       and norm(a.value) == sn_ and isinstance(a.ctx, ast.Load) and not isinstance(parent(a), ast.Compare)))
        order = [r[2] for r in refs]
        ok = 'left' in order and 'right' in order and order.index('left') < order.index('right') and \
            not any(isinstance(c, ast.Call) and norm(c.func) in ('reversed', 'sorted') for c in ch_.body_nodes())
        res.ob('%s %s' % (ch_.loc(), ch_.qual), 'PackedNode.children lists left before right', ok)
        if not ok:
            res.finding(ch_, ch_.node, 'PackedNode.children does not list [left, right] in that order', construct='packed-children-order')
    return res


# ------------------------------------------------------------------------------------------------
def run_sentinel(ctx: Ctx) -> RuleResult:
    """R-SENTINEL-SLOTS [C03 C04]: a slot that is initialised to a dedicated "nothing here" sentinel object holds
    arbitrary values otherwise (results of user callbacks: None placeholders, 0, '', empty lists are all legitimate
    children).  The only value test allowed on such a slot is identity with the sentinel; a truth test, a
    comparison with None or an equality test drops or merges legitimate children."""
    from ..exprs import in_bool_context
    repo = ctx.repo
    typer = ctx.typer
    res = RuleResult('R-SENTINEL-SLOTS', 'slots guarded by a sentinel object are only tested by identity with that sentinel')
    n_tests = 0
    n_slots = 0
    for k in repo.classes.values():
        if not k.module.name.startswith('lark.parsers.earley') and k.module.name != 'lark.parse_tree_builder':
            continue
        # sentinel: class attribute bound to an instance of a nested, field-less class
        sentinels = set()
        for n in k.node.body:
            if isinstance(n, ast.Assign) and len(n.targets) == 1 and isinstance(n.targets[0], ast.Name) and isinstance(n.value, ast.Call) \
                    and isinstance(n.value.func, ast.Name) and not n.value.args \
                    and any(isinstance(c, ast.ClassDef) and c.name == n.value.func.id for c in k.node.body):
                sentinels.add(n.targets[0].id)
        init = k.methods.get('__init__')
        if not sentinels or init is None:
            continue
        sn = init.self_name()
        slots = set()
        for n in init.body_nodes():
            if isinstance(n, ast.Assign) and len(n.targets) == 1 and isinstance(n.targets[0], ast.Attribute) \
                    and isinstance(n.targets[0].value, ast.Name) and n.targets[0].value.id == sn \
                    and isinstance(n.value, ast.Attribute) and n.value.attr in sentinels:
                slots.add(n.targets[0].attr)
        if not slots:
            continue
        n_slots += len(slots)
        want_t = 'C:' + k.qual
        for f in repo.functions.values():
            if f.module is not k.module:
                continue
            env = None
            for n in f.body_nodes():
                if not (isinstance(n, ast.Attribute) and n.attr in slots and isinstance(n.ctx, ast.Load)):
                    continue
                if env is None:
                    env = typer.env(f)
                if want_t not in typer.expr(f, n.value, env):
                    continue
                p = parent(n)
                site = '%s %s' % (f.module.loc(n), f.qual)
                if isinstance(p, ast.Compare):
                    n_tests += 1
                    others = [p.left] + list(p.comparators)
                    others = [o for o in others if o is not n]
                    ok = all(isinstance(o_, (ast.Is, ast.IsNot)) for o_ in p.ops) and len(others) == 1 \
                        and isinstance(others[0], ast.Attribute) and others[0].attr in sentinels
                    res.ob(site, 'slot %s.%s is compared by identity with the sentinel (%s)' % (k.name, n.attr, norm(p)), ok)
                    if not ok:
                        res.finding(f, p, 'the slot %s.%s holds arbitrary child values (None placeholders, falsy callback results); testing it '
                                    'with `%s` treats a legitimate value as "no data" and drops it from the children' % (k.name, n.attr, norm(p)),
                                    construct='slot-test:%s.%s:%s' % (k.name, n.attr, _shape_of_test(p, n)))
                elif in_bool_context(n):
                    n_tests += 1
                    res.ob(site, 'slot %s.%s is not tested for truth' % (k.name, n.attr), False)
                    res.finding(f, enclosing_stmt(n), 'the slot %s.%s holds arbitrary child values; a truth test drops falsy children '
                                '(None placeholders, 0, empty strings)' % (k.name, n.attr), construct='slot-truth:%s.%s' % (k.name, n.attr))
    res.require_instances(n_slots, 2, 'sentinel-guarded slots')
    res.require_instances(n_tests, 2, 'tests on sentinel-guarded slots')
    return res


def _shape_of_test(cmp: ast.Compare, slot: ast.AST) -> str:
    ops = ','.join(type(o).__name__ for o in cmp.ops)
    others = [norm(o) for o in [cmp.left] + list(cmp.comparators) if o is not slot]
    return '%s:%s' % (ops, '|'.join(others))


# ------------------------------------------------------------------------------------------------
_MUTATORS = {'remove', 'discard', 'pop', 'clear', 'add', 'update', 'difference_update', 'intersection_update',
             'append', 'extend', 'insert', 'popitem', 'setdefault', 'sort', 'reverse'}


def run_scan_buffer(ctx: Ctx) -> RuleResult:
    """R-SCAN-BUFFER [C04 C20]: the Earley scanners treat the scan buffer they are given as read-only, and the dynamic
    scanner carries *every* item of it over ignored text.  An item whose terminal matched at position i must still be
    retried after an ignored stretch starting at i (its terminal may also match there: /\\s?b/ with %ignore " "), so
    consuming the buffer in the matching pass loses derivations (upstream issue #768)."""
    from ..exprs import find_pat
    repo = ctx.repo
    res = RuleResult('R-SCAN-BUFFER', 'the scan buffer is read-only in the scanners; all of it is carried over ignored text')
    res.default_props = ['C01', 'C04', 'C20']
    n = 0
    for fq in ('lark.parsers.earley:Parser._parse.scan', 'lark.parsers.xearley:Parser._parse.scan'):
        f = repo.func(fq)
        ps = f.positional_names()
        cands = [p for p in ps if p == 'to_scan'] or ps[-1:]
        if not cands:
            raise AnalysisError('%s has no scan-buffer parameter (anchor vanished)' % fq)
        buf = cands[0]
        # the parameter holding the buffer: the one the callers bind the scan buffer to (last positional parameter)
        if buf != ps[-1]:
            raise AnalysisError('%s: scan buffer parameter is not the last positional parameter' % fq)
        muts = []
        for x in f.body_nodes():
            if isinstance(x, ast.Call) and isinstance(x.func, ast.Attribute) and isinstance(x.func.value, ast.Name) \
                    and x.func.value.id == buf and x.func.attr in _MUTATORS:
                muts.append(x)
            if isinstance(x, ast.AugAssign) and isinstance(x.target, ast.Name) and x.target.id == buf:
                muts.append(x)
            if isinstance(x, ast.Delete) and any(buf in norm(t) for t in x.targets):
                muts.append(x)
            if isinstance(x, ast.Assign) and any(isinstance(t, ast.Name) and t.id == buf for t in x.targets):
                muts.append(x)
        n += 1
        ok = not muts
        res.ob('%s %s' % (f.loc(), f.qual), 'the scan buffer `%s` is only read' % buf, ok)
        for m in muts:
            res.finding(f, m, 'the scanner modifies the scan buffer it was given (`%s`): items removed in the matching pass are neither '
                        'carried over ignored text nor reported as considered when the scan fails -- derivations that need the retry '
                        'after the ignored stretch are lost' % norm(m), construct='scan-buffer-mutated:' + (
                            m.func.attr if isinstance(m, ast.Call) else type(m).__name__))
    x = repo.func('lark.parsers.xearley:Parser._parse.scan')
    buf = x.positional_names()[-1]
    carry = find_pat(x.body_nodes(), '$dm[$$k].extend([($it, $$i, None) for $it in $buf])', {'buf': buf})
    ok = False
    for c, b_ in carry:
        # inside `for <ig> in self.ignore: m = match(<ig>, ...); if m:` and keyed by the end of the ignored match
        loop = next((a for a in ancestors(c) if isinstance(a, ast.For)), None)
        # under "the ignored terminal matched" (nested `if m:` or a guard `if not m: continue`), keyed by the end of that match
        mnames = [norm(t) for t, pol in path_conditions(enclosing_stmt(c)) if pol and isinstance(t, ast.Name)] + \
                 [norm(t.operand) for t, pol in path_conditions(enclosing_stmt(c)) if not pol and isinstance(t, ast.UnaryOp) and isinstance(t.op, ast.Not) and isinstance(t.operand, ast.Name)]
        if loop is not None and norm(loop.iter).endswith('.ignore') and any(b_['$$k'] == '%s.end()' % m_ for m_ in mnames):
            ok = True
    n += 1
    # ... for EVERY ignored terminal that matches here (two of them may match with different lengths: whitespace / whitespace + comment)
    ig_loops = [l for l in x.body_nodes() if isinstance(l, ast.For) and norm(l.iter).endswith('.ignore')]
    early = [b_ for l in ig_loops for b_ in ast.walk(l) if isinstance(b_, (ast.Break, ast.Return))]
    ok_all = len(ig_loops) == 1 and not early
    res.ob('%s %s' % (x.loc(), x.qual), 'every ignored terminal is tried at every position (no early exit from the loop over self.ignore)', ok_all)
    if not ok_all:
        res.finding(x, early[0] if early else x.node, 'the loop over the ignored terminals ends at the first one that matches: a longer ignored match of '
                    'another terminal (a comment that starts with blanks) is never carried over, and the input after it is rejected', construct='ignore-loop-exit')
    res.ob('%s %s' % (x.loc(), x.qual), 'every item of the scan buffer is carried over an ignored match (to the end of that match)', ok)
    if not ok:
        res.finding(x, x.node, 'the dynamic scanner does not carry the whole scan buffer over ignored text', construct='carry-over')
    # what goes through delayed_matches lands in the next Earley set *before* the completer runs there.  That is right for scan-buffer
    # items; a COMPLETED item carried that way is completed a second time, and every derivation through it shows up twice (the copy of
    # its node made for the new position and the one the completer builds are different nodes).  Completed start items -- needed only
    # where the parse may end -- therefore travel in their own table and join their column after predict_and_complete has run for it.
    pf = repo.func('lark.parsers.xearley:Parser._parse')
    dm_names = {b_['dm'] for _c, b_ in carry}
    bad_carry = []
    for c in x.body_nodes():
        if isinstance(c, ast.Call) and isinstance(c.func, ast.Attribute) and c.func.attr in ('extend', 'append') \
                and isinstance(c.func.value, ast.Subscript) and norm(c.func.value.value) in dm_names:
            for comp in [y for a_ in c.args for y in ast.walk(a_) if isinstance(y, (ast.ListComp, ast.GeneratorExp))]:
                src = norm(comp.generators[0].iter)
                if src != buf and not src.startswith('self.Set(' + buf):
                    bad_carry.append((c, src))
    ok = not bad_carry
    n += 1
    res.ob('%s %s' % (x.loc(), x.qual), 'only scan-buffer items are carried into the next Earley set through delayed_matches', ok)
    if not ok:
        res.finding(x, bad_carry[0][0], 'items of %s are carried over ignored text through delayed_matches: they enter the next Earley set before the '
                    'completer runs and are completed again there -- with ambiguity=\'explicit\' (or \'forest\') every derivation through them '
                    'appears twice, and an unambiguous input is reported ambiguous' % bad_carry[0][1], construct='carry-completed-twice')
    else:
        # the dedicated table: filled from complete start items spanning the input so far, emptied right after each predict_and_complete
        # the filling site: a comprehension over columns[...] handed to extend/append, or a loop over columns[...] that appends its items
        fills = []
        for c in x.body_nodes():
            if not (isinstance(c, ast.Call) and isinstance(c.func, ast.Attribute) and c.func.attr in ('extend', 'append')
                    and isinstance(c.func.value, ast.Subscript) and norm(c.func.value.value) not in dm_names):
                continue
            comp = next((y for a_ in c.args for y in ast.walk(a_) if isinstance(y, (ast.ListComp, ast.GeneratorExp))
                         and norm(y.generators[0].iter).startswith('columns[')), None)
            if comp is not None:
                tests_ = set()
                for i_ in comp.generators[0].ifs:
                    tests_ |= {sym_norm(t) for t in (i_.values if isinstance(i_, ast.BoolOp) and isinstance(i_.op, ast.And) else [i_])}
                fills.append((c, norm(comp.generators[0].target), tests_))
                continue
            loop_ = next((l for l in ancestors(c) if isinstance(l, ast.For) and norm(l.iter).startswith('columns[')), None)
            if loop_ is not None and c.args and norm(c.args[0]) == norm(loop_.target):
                tests_ = set()
                for t, pol in path_conditions(enclosing_stmt(c)):
                    if pol and any(isinstance(n_, ast.Name) and n_.id == norm(loop_.target) for n_ in ast.walk(t)):
                        tests_ |= {sym_norm(v) for v in (t.values if isinstance(t, ast.BoolOp) and isinstance(t.op, ast.And) else [t])}
                fills.append((c, norm(loop_.target), tests_))
        ok2 = len(fills) == 1
        why = 'completed start items are not carried at all (trailing ignored text would be rejected)'
        if ok2:
            fill_call, itv, tests = fills[0]
            need = {sym_norm(ast.parse(x_, mode='eval').body) for x_ in ('%s.is_complete' % itv, '%s.s == start_symbol' % itv, '%s.start == 0' % itv)}
            ok2 = need <= tests
            why = 'the carried items are filtered by %s, not by %s' % (sorted(tests), sorted(need))
            fills = [fill_call]
            table = norm(fills[0].func.value.value)
            if ok2:
                # consumer: a local function of _parse reading that table, called after every predict_and_complete call
                cons = [g_ for g_ in pf.nested.values() if any(isinstance(y, ast.Name) and y.id == table for y in ast.walk(g_.node)) and g_ is not x]
                ok2 = len(cons) == 1
                why = 'nothing reads the table %s' % table
                if ok2:
                    # the consumer takes the entries out: the dead-end test reads the table's emptiness
                    takes_out = any(isinstance(c_, ast.Call) and isinstance(c_.func, ast.Attribute) and c_.func.attr in ('pop', 'popitem') and norm(c_.func.value) == table
                                    for c_ in ast.walk(cons[0].node)) or any(isinstance(d_, ast.Delete) and any(norm(t_).startswith(table + '[') for t_ in d_.targets)
                                                                             for d_ in ast.walk(cons[0].node))
                    ok2 = takes_out
                    why = 'the consumer reads %s without taking the entries out: the table never empties, and the test for "nothing left" never holds again' % table
                if ok2:
                    # every entry taken out gets its families merged and joins the column: no path through the consumer's loop skips either
                    from ..exprs import path_vectors
                    loops_ = [l for l in ast.walk(cons[0].node) if isinstance(l, ast.For)
                              and any(isinstance(y, ast.Name) and y.id == table for y in ast.walk(l.iter))]
                    if len(loops_) == 1:
                        lp_ = loops_[0]
                        is_add = lambda y: isinstance(y, ast.Call) and isinstance(y.func, ast.Attribute) and y.func.attr == 'add' \
                            and norm(y.func.value).startswith('columns[')
                        vec = path_vectors(lp_.body, [is_add])
                        fam = [l for l in ast.walk(lp_) if l is not lp_ and isinstance(l, (ast.For, ast.While))
                               and any(isinstance(y, ast.Call) and isinstance(y.func, ast.Attribute) and y.func.attr == 'add_family' for y in ast.walk(l))]
                        fam_cond = [t for l in fam for t, _pol in path_conditions(l) if any(t is y for y in ast.walk(lp_))]
                        if vec and is_add and any(v != (1,) for v in vec):
                            ok2 = False
                            why = 'some path through the loop over the carried items does not add the item to its column exactly once (%s)' % sorted(vec)
                        elif fam and fam_cond:
                            ok2 = False
                            why = 'the derivations of a carried item are merged only under a condition (%s): where the completer already put the ' \
                                  'same item in the column, the derivation that ends before the ignored text is lost' % norm(fam_cond[0])
                if ok2:
                    pcs = [st for st in ast.walk(pf.node) if isinstance(st, ast.Expr) and isinstance(st.value, ast.Call)
                           and norm(st.value.func).endswith('.predict_and_complete')]
                    ok2 = bool(pcs)
                    for st in pcs:
                        blk = parent(st)
                        body = next((b for b in (getattr(blk, 'body', []), getattr(blk, 'orelse', [])) if st in b), None)
                        nxt = body[body.index(st) + 1] if body is not None and body.index(st) + 1 < len(body) else None
                        if not (isinstance(nxt, ast.Expr) and isinstance(nxt.value, ast.Call) and norm(nxt.value.func) == cons[0].name
                                and nxt.value.args and norm(nxt.value.args[0]) == norm(st.value.args[0])):
                            ok2 = False
                            why = 'the carried items do not join their column right after predict_and_complete(%s, ...)' % norm(st.value.args[0])
        n += 1
        res.ob('%s %s' % (x.loc(), x.qual), 'completed start items spanning the input are carried in their own table and join their column after the completer ran', ok2)
        if not ok2:
            res.finding(x, fills[0] if fills else x.node, 'carrying the completed start symbol over trailing ignored text changed shape: %s' % why,
                        construct='carry-solutions', props=['C01', 'C04', 'C20'] + (['C08'] if 'never empties' in why else []))
    # dynamic_complete: every proper prefix of the longest match is tried (no early exit), and every match -- full or prefix -- is
    # filed under the position where *that* match ends
    pl = [l for l in x.body_nodes() if isinstance(l, ast.For) and isinstance(l.iter, ast.Call) and norm(l.iter.func) == 'range'
          and any('len(' in norm(a_) for a_ in l.iter.args)]
    okl = len(pl) == 1 and not any(isinstance(y, (ast.Break, ast.Return)) for y in ast.walk(pl[0])) \
        and not any(isinstance(y, ast.Continue) for y in ast.walk(pl[0]))
    n += 1
    res.ob('%s %s' % (x.loc(), x.qual), 'the prefix loop of dynamic_complete tries every shorter prefix (no break / continue / return)', okl)
    if not okl:
        res.finding(x, pl[0] if pl else x.node, 'the loop over shorter prefixes of a match can stop early: token lengths that only a later '
                    'prefix produces are never queued, and their derivations are missing', construct='prefix-loop-exit')
    filed = find_pat(x.body_nodes(), '$dm[$$k].append(($it, $i, $t))')
    okk = len(filed) >= 2
    for c, b_ in filed:
        tdef = [a_ for a_ in x.body_nodes() if isinstance(a_, ast.Assign) and len(a_.targets) == 1 and norm(a_.targets[0]) == b_['t']
                and isinstance(a_.value, ast.Call) and norm(a_.value.func) == 'Token' and a_.lineno <= c.lineno]
        if not tdef:
            okk = False
            continue
        tdef = max(tdef, key=lambda a_: a_.lineno)
        targ_ = [tdef.value.args[1]] if len(tdef.value.args) > 1 else []
        mg = find_pat(targ_, '$m.group(0)') or find_pat(targ_, '$m.group()') or find_pat(targ_, '$m[0]')
        if not mg:
            okk = False
            res.finding(x, tdef, 'the token carried by a delayed match is built from %s, not from the text of its own match (m.group(0)): where the '
                        'regexp matches less than the text tried, the token does not match its terminal and the leaves no longer spell the input'
                        % (norm(tdef.value.args[1]) if len(tdef.value.args) > 1 else 'nothing'), construct='delayed-key:token-text')
            continue
        mvar = mg[0][1]['m']
        mdef = [a_ for a_ in x.body_nodes() if isinstance(a_, ast.Assign) and len(a_.targets) == 1 and norm(a_.targets[0]) == mvar
                and a_.lineno <= tdef.lineno]
        mdef = max(mdef, key=lambda a_: a_.lineno) if mdef else None
        on_slice = mdef is not None and isinstance(mdef.value, ast.Call) and len(mdef.value.args) == 2   # match(term, s[:-j]): relative to i
        want_k = {('%s + %s.end()' % (b_['i'], mvar)) if on_slice else '%s.end()' % mvar}
        from ..exprs import linear, lin_str
        got = lin_str(linear(ast.parse(b_['$$k'], mode='eval').body))
        wantl = lin_str(linear(ast.parse(sorted(want_k)[0], mode='eval').body))
        if got != wantl:
            okk = False
            res.finding(x, c, 'a delayed match is filed under %s, but the token it carries ends at %s: the parser completes the terminal at a '
                        'position its text does not reach (phantom derivations whose tokens do not spell the input)' % (b_['$$k'], sorted(want_k)[0]),
                        construct='delayed-key:%s' % got)
    n += 1
    res.ob('%s %s' % (x.loc(), x.qual), 'delayed matches are filed under the end position of their own match', okk)
    if not okk and not any('delayed-key' in f_.key for f_ in res.findings):
        res.finding(x, x.node, 'cannot find the two filing sites of delayed matches keyed by the match end', construct='delayed-key:shape')
    res.require_instances(n, 5, 'scan-buffer obligations')
    return res
