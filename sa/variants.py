"""Positive controls and the variant self-test (DESIGN §2.6, §2.7, Appendix E).

A variant is a list of text edits applied *in memory* (an overlay over the working tree: nothing is
written anywhere) plus the expected reaction of one rule: `fire` = the rule must report a finding it
does not report on the unmodified tree (optionally one whose key contains a given substring);
`silent` = the rule must report nothing new (neutral twin).  A variant whose anchor text is no longer
present in the tree is *skipped* (reported in the evidence), never counted as a failure: the tree under
analysis may have been edited.  An applied variant with the wrong reaction is an ANALYSIS-ERROR: the
checker is broken, the property is not.
"""
from __future__ import annotations

import os
import traceback
from concurrent.futures import ProcessPoolExecutor
from typing import Dict, List, Optional, Tuple

from .model import Repo, AnalysisError, repo_root
from .report import Ctx
from . import registry


class Variant:
    def __init__(self, rule: str, name: str, edits: List[Tuple[str, str, str]], expect: str = 'fire',
                 key: Optional[str] = None, quick: bool = False, note: str = ''):
        self.rule = rule
        self.name = name
        self.edits = edits          # (relpath, old text, new text); old must occur exactly once
        self.expect = expect        # fire | silent
        self.key = key
        self.quick = quick
        self.note = note


def overlay_for(v: Variant, root=None) -> Optional[Dict[str, str]]:
    root = root or repo_root()
    out: Dict[str, str] = {}
    for rel, old, new in v.edits:
        src = out.get(rel)
        if src is None:
            p = root / rel
            if not p.exists():
                return None
            src = p.read_text(encoding='utf8')
        if src.count(old) != 1:
            return None
        out[rel] = src.replace(old, new)
    return out


_base_cache: Dict[str, set] = {}


def _keys(rule: str, repo: Repo) -> set:
    ctx = Ctx(repo, 'quick')
    res = registry.rule_fn(rule)(ctx)
    return {f.key for f in res.findings}


def eval_variant(v: Variant) -> dict:
    d = {'rule': v.rule, 'name': v.name, 'expect': v.expect, 'status': 'ok', 'got': ''}
    try:
        ov = overlay_for(v)
        if ov is None:
            d['status'] = 'skipped'
            return d
        if v.rule not in _base_cache:
            try:
                _base_cache[v.rule] = _keys(v.rule, Repo())
            except AnalysisError:
                raise
        base = _base_cache[v.rule]
        try:
            keys = _keys(v.rule, Repo(overlay=ov))
            new = keys - base
        except AnalysisError as e:
            # the variant removed an anchor: the rule refuses to pass, which counts as firing
            keys = set()
            new = {'ANALYSIS-ERROR: %s' % e}
        if v.expect == 'fire':
            hit = [k for k in new if v.key is None or v.key in k or k.startswith('ANALYSIS-ERROR')]
            if not hit and v.key is not None and any(v.key in k for k in base & keys):
                # the tree under analysis already violates at this anchor: the control cannot add anything
                d['status'] = 'skipped'
                d['got'] = 'already reported on the unmodified tree'
            elif not hit:
                d['status'] = 'wrong'
                d['got'] = 'stayed silent (new findings: %s)' % sorted(new)[:3]
            else:
                d['got'] = sorted(hit)[0][:200]
        else:
            if new:
                d['status'] = 'wrong'
                d['got'] = 'reported %s' % sorted(new)[:3]
    except AnalysisError as e:
        d['status'] = 'wrong'
        d['got'] = 'analysis error on the unmodified tree: %s' % e
    except Exception:
        d['status'] = 'wrong'
        d['got'] = 'internal error: ' + traceback.format_exc()[-400:]
    return d


def variants_for(prop: str, tier: str) -> List[Variant]:
    from . import variants_table
    rules = registry.PROPERTIES[prop]['rules']
    out = []
    for v in variants_table.VARIANTS:
        if v.rule in rules and (tier == 'thorough' or v.quick):
            out.append(v)
    return out


def run_controls(prop: str, tier: str) -> List[dict]:
    vs = variants_for(prop, tier)
    if not vs:
        return []
    jobs = int(os.environ.get('VERIF_JOBS', '16'))
    if len(vs) <= 1 or jobs <= 1:
        return [eval_variant(v) for v in vs]
    with ProcessPoolExecutor(max_workers=min(jobs, len(vs))) as ex:
        return list(ex.map(eval_variant, vs))
