"""Which rules serve which property, and the claim text that goes into evidence / MANIFEST."""
from __future__ import annotations

import importlib
from typing import Callable, Dict

RULES: Dict[str, str] = {
    # rule id -> 'module:function'
    'R-EQHASH': 'sa.rules.eqhash:run',
}

PROPERTIES: Dict[str, dict] = {}


def rule_fn(rule_id: str) -> Callable:
    mod, fn = RULES[rule_id].split(':')
    return getattr(importlib.import_module(mod), fn)
