#!/venv/bin/python
"""Run the registered quick checks against a seeded change without touching /repo.

usage: tools/seedcheck.py <patch.diff> [Cxx ...]
Creates a scratch git worktree of /repo's HEAD outside /repo and /verif, applies the patch there, runs
./check for the given (default: all claimed) properties with VERIF_REPO pointing at it, prints which
rule reported what, and removes the worktree."""
import json, os, subprocess, sys, tempfile, shutil
from concurrent.futures import ThreadPoolExecutor

VERIF = os.path.dirname(os.path.dirname(os.path.abspath(__file__)))
sys.path.insert(0, VERIF)
from sa import registry


def main():
    patch = os.path.abspath(sys.argv[1])
    props = sys.argv[2:] or sorted(registry.PROPERTIES)
    wt = tempfile.mkdtemp(prefix='seedcheck-', dir='/tmp')
    os.rmdir(wt)
    subprocess.run(['git', '-C', '/repo', 'worktree', 'add', '--detach', wt, 'HEAD'], check=True, capture_output=True)
    try:
        r = subprocess.run(['git', '-C', wt, 'apply', patch], capture_output=True, text=True)
        if r.returncode != 0:
            print('PATCH DOES NOT APPLY:', r.stderr.strip())
            return 3
        env = dict(os.environ, VERIF_REPO=wt, VERIF_SCRATCH_EVIDENCE=wt + '-evidence')

        def run(p):
            r = subprocess.run([os.path.join(VERIF, 'check'), p], capture_output=True, text=True, env=env, cwd=VERIF)
            return p, r.returncode, r.stdout
        caught = []
        with ThreadPoolExecutor(8) as ex:
            for p, rc, out in ex.map(run, props):
                lines = [l for l in out.splitlines() if l.startswith(('lark/', 'ANALYSIS-ERROR')) or 'VIOLATION' in l]
                tag = {0: 'silent', 1: 'CAUGHT', 2: 'ANALYSIS-ERROR'}.get(rc, 'rc=%d' % rc)
                print('%s %s' % (p, tag))
                for l in lines:
                    if not l.startswith('VIOLATION'):
                        print('    ' + l[:260])
                if rc == 1:
                    caught.append(p)
        print('SUMMARY caught_by=%s' % ','.join(caught))
        return 0
    finally:
        subprocess.run(['git', '-C', '/repo', 'worktree', 'remove', '--force', wt], capture_output=True)
        shutil.rmtree(wt + '-evidence', ignore_errors=True)


if __name__ == '__main__':
    sys.exit(main())
