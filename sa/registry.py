"""Which rules serve which property, and the claim text that goes into evidence / MANIFEST."""
from __future__ import annotations

import importlib
from typing import Callable, Dict

RULES: Dict[str, str] = {
    # rule id -> 'module:function'
    'R-EQHASH': 'sa.rules.eqhash:run',
    'R-POS-AFFINITY': 'sa.rules.positions:run_affinity',
    'R-NEWLINE-PRED': 'sa.rules.positions:run_newline_pred',
    'R-TOKEN-NONE-TEST': 'sa.rules.positions:run_token_none_test',
    'R-META-TRIPLES': 'sa.rules.positions:run_meta_triples',
    'R-SHARED-EFFECTS': 'sa.rules.effects:run_effects',
    'R-POSTLEX-RESET': 'sa.rules.effects:run_postlex_reset',
    'R-INDENT-PAIRING': 'sa.rules.indenter:run_pairing',
    'R-SPLIT-TOTAL': 'sa.rules.indenter:run_split_total',
    'R-SERIAL-AGREE': 'sa.rules.serial:run_agree',
    'R-SERIAL-NORM': 'sa.rules.serial:run_norm',
    'R-SERIAL-NS': 'sa.rules.serial:run_ns',
    'R-LOAD-REAPPLY': 'sa.rules.serial:run_load_reapply',
    'R-STANDALONE-CLOSURE': 'sa.rules.standalone:run',
    'R-CACHE': 'sa.rules.cache:run',
    'R-FORK-ALIAS': 'sa.rules.fork:run_alias',
    'R-SHALLOW-FORK': 'sa.rules.fork:run_shallow',
    'R-TERM-NAME-PROTOCOL': 'sa.rules.fork:run_term_names',
    'R-SCAN-PROGRESS': 'sa.rules.scan:run',
    'R-REPR-PARAM': 'sa.rules.repr:run_repr',
    'R-WINDOW-BOUNDS': 'sa.rules.repr:run_window',
    'R-XFORM-PARITY': 'sa.rules.xform:run_parity',
    'R-NODE-NAME': 'sa.rules.xform:run_node_name',
    'R-KEEP-PRED': 'sa.rules.shape:run_keep',
    'R-PREFIX-PROTOCOL': 'sa.rules.shape:run_prefix',
    'R-AMBIG-INDEX': 'sa.rules.shape:run_ambig_index',
    'R-NODECACHE': 'sa.rules.forest:run_nodecache',
    'R-VISIT-GUARD': 'sa.rules.forest:run_visit_guard',
    'R-ORDER-DET': 'sa.rules.order:run_order',
    'R-PRIO-SIBLINGS': 'sa.rules.order:run_prio',
    'R-LEX-PRECEDENCE': 'sa.rules.lexprec:run',
    'R-EXC-DISCIPLINE': 'sa.rules.exc:run',
}

PROPERTIES: Dict[str, dict] = {}


def rule_fn(rule_id: str) -> Callable:
    mod, fn = RULES[rule_id].split(':')
    return getattr(importlib.import_module(mod), fn)
