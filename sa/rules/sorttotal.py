"""R-SORT-TOTAL [C05 C07 C08]: every keyed ordering (sorted / .sort / min / max with key=) compares values of one
comparable kind.  A key component that can be None next to a str/int (an Optional field such as Rule.alias or
RuleOptions.priority) makes the ordering raise TypeError for exactly those inputs where two elements tie on the
components before it -- on the error path of a parser that turns a rejection into a TypeError (C08); in the lexer
or forest it would make terminal precedence / derivation order input-dependent (C07, C05).

The key's components are read from the lambda (tuple elements) or, for attrgetter('<name>'), from the property of
that name; each component is typed with the field types the repository's own assignments give (not annotations).
A component is accepted when its type set has one comparable builtin kind, or when a None is replaced before the
comparison (`x or 0`, `x if x is not None else ...`).  Components the typer cannot type are listed as such.
"""
from __future__ import annotations

import ast
from typing import Dict, List, Optional, Set, Tuple

from ..model import Repo, ClassInfo, FuncInfo, AnalysisError, norm, parent, ancestors, enclosing_stmt, const_str
from ..report import Ctx, RuleResult

COMPARABLE = {'b:int': 'num', 'b:float': 'num', 'b:bool': 'num', 'b:str': 'str', 'b:bytes': 'bytes', 'b:tuple': 'tuple'}
SORTERS = {'sorted', 'min', 'max'}


def _components(key: ast.AST) -> Optional[List[ast.AST]]:
    if isinstance(key, ast.Lambda):
        b = key.body
        return list(b.elts) if isinstance(b, ast.Tuple) else [b]
    return None


def _strip_sign(e: ast.AST) -> ast.AST:
    while isinstance(e, ast.UnaryOp) and isinstance(e.op, (ast.USub, ast.UAdd)):
        e = e.operand
    return e


def _none_replaced(e: ast.AST) -> bool:
    """`x or c` / `x if x is not None else c` / `c if x is None else x`: None never reaches the comparison."""
    if isinstance(e, ast.BoolOp) and isinstance(e.op, ast.Or) and isinstance(e.values[-1], ast.Constant) and e.values[-1].value is not None:
        return True
    if isinstance(e, ast.IfExp) and 'None' in norm(e.test):
        return True
    return False


def run(ctx: Ctx) -> RuleResult:
    repo, ty = ctx.repo, ctx.typer
    res = RuleResult('R-SORT-TOTAL', 'keyed orderings compare one comparable kind per key component (no None next to str/int)')
    n_sites = 0
    for f in repo.functions.values():
        if f.module.name.startswith(('lark.tools', 'lark.__pyinstaller')):
            continue
        env = None
        for n in f.body_nodes():
            if not isinstance(n, ast.Call):
                continue
            kw = next((k for k in n.keywords if k.arg == 'key'), None)
            if kw is None:
                continue
            is_sorter = (isinstance(n.func, ast.Name) and n.func.id in SORTERS) or (isinstance(n.func, ast.Attribute) and n.func.attr == 'sort')
            if not is_sorter:
                continue
            n_sites += 1
            site = '%s %s' % (f.module.loc(n), f.qual)
            comps: Optional[List[Tuple[FuncInfo, ast.AST]]] = None
            key = kw.value
            lam_env = None
            if isinstance(key, ast.Lambda):
                lf = ty.lambda_func(f, key)
                comps = [(lf, c) for c in _components(key)]
                # the lambda's parameter is an element of what is being ordered
                coll = n.func.value if (isinstance(n.func, ast.Attribute) and n.func.attr == 'sort') else (n.args[0] if n.args else None)
                if coll is not None and key.args.args:
                    if env is None:
                        env = ty.env(f)
                    elems = {t[2:] for t in ty.expr(f, coll, env) if t.startswith('E:')}
                    lam_env = dict(ty.env(lf))
                    if elems:
                        lam_env[key.args.args[0].arg] = elems
            elif isinstance(key, ast.Call) and norm(key.func) in ('attrgetter', 'operator.attrgetter') and key.args and const_str(key.args[0]):
                attr = const_str(key.args[0])
                comps = []
                for k in repo.classes.values():
                    m = k.methods.get(attr)
                    if m is not None and m.is_property:
                        for r in m.body_nodes():
                            if isinstance(r, ast.Return) and r.value is not None:
                                comps += [(m, c) for c in (r.value.elts if isinstance(r.value, ast.Tuple) else [r.value])]
            if comps is None:
                res.ob(site, 'key %s: not a lambda / attrgetter of a property -- components not enumerated' % norm(key)[:60], True)
                continue
            for g, c in comps:
                core = _strip_sign(c)
                use_env = lam_env
                # <param>[k] where the ordered list was built by a comprehension of tuples: look at the k-th tuple element
                if isinstance(core, ast.Subscript) and isinstance(core.value, ast.Name) and isinstance(key, ast.Lambda) and key.args.args \
                        and core.value.id == key.args.args[0].arg and isinstance(core.slice, ast.Constant) and isinstance(core.slice.value, int):
                    coll = n.func.value if (isinstance(n.func, ast.Attribute) and n.func.attr == 'sort') else (n.args[0] if n.args else None)
                    if isinstance(coll, ast.Name):
                        defs = [a for a in f.body_nodes() if isinstance(a, ast.Assign) and len(a.targets) == 1
                                and isinstance(a.targets[0], ast.Name) and a.targets[0].id == coll.id]
                        if len(defs) == 1 and isinstance(defs[0].value, ast.ListComp) and isinstance(defs[0].value.elt, ast.Tuple) \
                                and core.slice.value < len(defs[0].value.elt.elts):
                            core = _strip_sign(defs[0].value.elt.elts[core.slice.value])
                            g = f
                            use_env = None
                if _none_replaced(core):
                    res.ob(site, 'key component %s: None is replaced before the comparison' % norm(c), True)
                    continue
                ts = ty.expr(g, core, use_env if (use_env is not None and isinstance(key, ast.Lambda)) else ty.env(g))
                how = ''
                if ts <= {'?', 'P'} and isinstance(core, ast.Attribute):
                    # receiver not typed (elements of a set filled by .add, slots set from untyped parameters): fall back on
                    # every field of that name in the package -- an over-approximation of what the component can be
                    byname: Set[str] = set()
                    for (cq, attr), fts in ty.fields.items():
                        if attr == core.attr:
                            byname |= {t for t in fts if t in COMPARABLE or t == 'b:none'}
                    if byname:
                        ts, how = byname, ' [by field name .%s]' % core.attr
                kinds = {COMPARABLE[t] for t in ts if t in COMPARABLE}
                has_none = 'b:none' in ts
                ok = not (has_none and kinds) and len(kinds) <= 1
                what = 'key component %s has one comparable kind (types %s%s)' % (norm(c), sorted(ts), how)
                res.ob(site, what, ok)
                if not ok:
                    res.finding(f, n, 'the ordering key component `%s` can be %s: comparing two elements that tie on the earlier components raises '
                                'TypeError (None is not orderable) -- %s' % (
                                    norm(c), ' or '.join(sorted(ts)),
                                    'on this path the TypeError replaces the UnexpectedInput being built' if 'Unexpected' in norm(enclosing_stmt(n)) or
                                    any('Unexpected' in norm(s_) for s_ in _following(n)) else 'the order then depends on the input'),
                                construct='sort-key:%s' % norm(c))
    res.require_instances(n_sites, 5, 'keyed orderings')
    return res


def _following(n: ast.AST) -> List[ast.AST]:
    st = enclosing_stmt(n)
    p = parent(st)
    for field in ('body', 'orelse', 'finalbody'):
        b = getattr(p, field, None)
        if isinstance(b, list) and st in b:
            return b[b.index(st) + 1:][:2]
    return []
