"""Whole-repository neutral twins: behaviour-preserving AST rewrites of every function of the package.

Each twin is an overlay (nothing is written); a rule whose findings differ between the tree and a twin depends on
spelling rather than on structure.  The twins run in the thorough tier (sa/variants.py) and are the regression
guard for the false-alarm policy of DESIGN §6.

  unparse     statement-wise ast.unparse of every module                      (sa/variants.global_twin_overlay)
  rename      consistent renaming of every local                               (sa/variants.global_rename_overlay)
  flip        operands of ==, !=, is, is not swapped, < > <= >= mirrored, when both operands are side-effect free
  ifexp       `x = a if c else b` / `return a if c else b` turned into if statements
  extract     `if <test>:` -> `_t = <test>; if _t:`   and   `return <expr>` -> `_r = <expr>; return _r`
  inline      single-assignment locals used once, in the next statement, substituted into their use
  docstring   a docstring and an always-true assertion added to every function
"""
from __future__ import annotations

import ast
import copy as _copy
from typing import Callable, Dict, List, Optional

from .model import repo_root


def _pure(e: ast.AST) -> bool:
    """No call, no await/yield, no walrus: evaluating it has no side effect and cannot observe one of its sibling."""
    for x in ast.walk(e):
        if isinstance(x, (ast.Call, ast.Await, ast.Yield, ast.YieldFrom, ast.NamedExpr, ast.Lambda, ast.ListComp, ast.SetComp,
                          ast.DictComp, ast.GeneratorExp)):
            return False
    return True


_MIRROR = {ast.Lt: ast.Gt, ast.Gt: ast.Lt, ast.LtE: ast.GtE, ast.GtE: ast.LtE}


class Flip(ast.NodeTransformer):
    def visit_Compare(self, n):
        self.generic_visit(n)
        if len(n.ops) == 1 and isinstance(n.ops[0], (ast.Eq, ast.NotEq, ast.Is, ast.IsNot)) and _pure(n.left) and _pure(n.comparators[0]):
            n.left, n.comparators = n.comparators[0], [n.left]
        elif len(n.ops) == 1 and type(n.ops[0]) in _MIRROR and _pure(n.left) and _pure(n.comparators[0]):
            n.left, n.comparators, n.ops = n.comparators[0], [n.left], [_MIRROR[type(n.ops[0])]()]
        return n


class IfExpToIf(ast.NodeTransformer):
    def _rewrite(self, st):
        if isinstance(st, ast.Assign) and len(st.targets) == 1 and isinstance(st.targets[0], ast.Name) and isinstance(st.value, ast.IfExp):
            v = st.value
            a = ast.Assign(targets=[_copy.deepcopy(st.targets[0])], value=v.body, lineno=st.lineno)
            b = ast.Assign(targets=[_copy.deepcopy(st.targets[0])], value=v.orelse, lineno=st.lineno)
            return ast.If(test=v.test, body=[a], orelse=[b])
        if isinstance(st, ast.Return) and isinstance(st.value, ast.IfExp):
            v = st.value
            return ast.If(test=v.test, body=[ast.Return(value=v.body)], orelse=[ast.Return(value=v.orelse)])
        return st

    def generic_visit(self, node):
        super().generic_visit(node)
        for field in ('body', 'orelse', 'finalbody'):
            b = getattr(node, field, None)
            if isinstance(b, list) and b and isinstance(b[0], ast.stmt):
                setattr(node, field, [self._rewrite(s) for s in b])
        return node


class Extract(ast.NodeTransformer):
    """if <test>: -> _t<k> = <test>; if _t<k>:      return <expr> -> _r<k> = <expr>; return _r<k>   (not in generators'
    return-less paths; elif chains are left alone: their tests must stay lazily evaluated)."""
    def __init__(self):
        self.k = 0

    def _block(self, stmts, in_elif=False):
        out = []
        for s in stmts:
            if isinstance(s, ast.If) and not isinstance(s.test, (ast.Name, ast.Constant)):
                self.k += 1
                nm = '_t%d' % self.k
                out.append(ast.Assign(targets=[ast.Name(id=nm, ctx=ast.Store())], value=s.test, lineno=s.lineno))
                s.test = ast.Name(id=nm, ctx=ast.Load())
                out.append(s)
            elif isinstance(s, ast.Return) and s.value is not None and not isinstance(s.value, (ast.Name, ast.Constant)):
                self.k += 1
                nm = '_r%d' % self.k
                out.append(ast.Assign(targets=[ast.Name(id=nm, ctx=ast.Store())], value=s.value, lineno=s.lineno))
                s.value = ast.Name(id=nm, ctx=ast.Load())
                out.append(s)
            else:
                out.append(s)
        return out

    def generic_visit(self, node):
        super().generic_visit(node)
        for field in ('body', 'orelse', 'finalbody'):
            b = getattr(node, field, None)
            if isinstance(b, list) and b and isinstance(b[0], ast.stmt):
                # an `elif` is an If that is the sole statement of an orelse: extracting its test would evaluate it eagerly
                if field == 'orelse' and isinstance(node, ast.If) and len(b) == 1 and isinstance(b[0], ast.If):
                    continue
                setattr(node, field, self._block(b))
        return node


class Inline(ast.NodeTransformer):
    """v = <pure expr>  immediately followed by the only statement that reads v (once, and v is stored nowhere else in
    the function): substitute."""
    def visit_FunctionDef(self, fn):
        self.generic_visit(fn)
        stores: Dict[str, int] = {}
        loads: Dict[str, int] = {}
        for x in ast.walk(fn):
            if isinstance(x, ast.Name):
                d = stores if isinstance(x.ctx, (ast.Store, ast.Del)) else loads
                d[x.id] = d.get(x.id, 0) + 1
            if isinstance(x, (ast.Global, ast.Nonlocal)):
                for nm in x.names:
                    stores[nm] = 99
        params = {a.arg for a in fn.args.posonlyargs + fn.args.args + fn.args.kwonlyargs}
        cand = {n for n, c in stores.items() if c == 1 and loads.get(n, 0) == 1 and n not in params}
        nested_names = set()
        for x in ast.walk(fn):
            if x is not fn and isinstance(x, (ast.FunctionDef, ast.Lambda, ast.ClassDef, ast.ListComp, ast.SetComp, ast.DictComp, ast.GeneratorExp)):
                for y in ast.walk(x):
                    if isinstance(y, ast.Name):
                        nested_names.add(y.id)
        cand -= nested_names

        def block(stmts):
            out = []
            i = 0
            while i < len(stmts):
                s = stmts[i]
                if (isinstance(s, ast.Assign) and len(s.targets) == 1 and isinstance(s.targets[0], ast.Name) and s.targets[0].id in cand
                        and _pure(s.value) and i + 1 < len(stmts)):
                    nxt = stmts[i + 1]
                    # the use must be in the header of the next statement (not inside a loop body, which would re-evaluate)
                    hdr = [nxt] if not isinstance(nxt, (ast.For, ast.While, ast.If, ast.With, ast.Try, ast.FunctionDef, ast.ClassDef)) else \
                        ([nxt.test] if isinstance(nxt, ast.If) else [])
                    uses = [x for h in hdr for x in ast.walk(h) if isinstance(x, ast.Name) and x.id == s.targets[0].id and isinstance(x.ctx, ast.Load)]
                    if len(uses) == 1:
                        class Sub(ast.NodeTransformer):
                            def visit_Name(self_, n):
                                if n is uses[0]:
                                    return _copy.deepcopy(s.value)
                                return n
                        if isinstance(nxt, ast.If):
                            nxt.test = Sub().visit(nxt.test)
                        else:
                            stmts[i + 1] = Sub().visit(nxt)
                        i += 1
                        continue
                out.append(s)
                i += 1
            return out

        for node in ast.walk(fn):
            for field in ('body', 'orelse', 'finalbody'):
                b = getattr(node, field, None)
                if isinstance(b, list) and b and isinstance(b[0], ast.stmt):
                    setattr(node, field, block(b))
        return fn


class Docstring(ast.NodeTransformer):
    def visit_FunctionDef(self, fn):
        self.generic_visit(fn)
        has_doc = fn.body and isinstance(fn.body[0], ast.Expr) and isinstance(fn.body[0].value, ast.Constant) and isinstance(fn.body[0].value.value, str)
        extra = [] if has_doc else [ast.Expr(value=ast.Constant(value='Neutral twin docstring.'))]
        rest = fn.body[1:] if has_doc else fn.body
        head = fn.body[:1] if has_doc else extra
        fn.body = head + [ast.Assert(test=ast.Compare(left=ast.Name(id='__name__', ctx=ast.Load()), ops=[ast.IsNot()], comparators=[ast.Constant(value=None)]), msg=None)] + rest
        return fn


TWINS: Dict[str, Callable[[], ast.NodeTransformer]] = {
    'flip': Flip, 'ifexp': IfExpToIf, 'extract': Extract, 'inline': Inline, 'docstring': Docstring,
}


def ast_twin_overlay(kind: str, root=None) -> Dict[str, str]:
    """Apply one of the AST twins to every top-level statement of every module (statements holding ###{standalone
    markers are kept verbatim, like in the unparse twin)."""
    root = root or repo_root()
    out: Dict[str, str] = {}
    for p in sorted((root / 'lark').rglob('*.py')):
        rel = p.relative_to(root).as_posix()
        if '__pycache__' in rel or '/__pyinstaller/' in rel:
            continue
        src = p.read_text(encoding='utf8')
        lines = src.splitlines(True)
        try:
            tree = ast.parse(src)
        except SyntaxError:
            continue
        buf: List[str] = []
        cur = 1
        changed = False
        for node in tree.body:
            start = min([node.lineno] + [d.lineno for d in getattr(node, 'decorator_list', [])])
            end = node.end_lineno
            buf.extend(lines[cur - 1:start - 1])
            seg = ''.join(lines[start - 1:end])
            if '###' in seg or not isinstance(node, (ast.FunctionDef, ast.ClassDef)):
                buf.append(seg)
            else:
                before = ast.unparse(node)
                new = TWINS[kind]().visit(_copy.deepcopy(node))
                ast.fix_missing_locations(new)
                text = ast.unparse(new)
                if text != before:
                    changed = True
                    buf.append(text + '\n')
                else:
                    buf.append(seg)
            cur = end + 1
        buf.extend(lines[cur - 1:])
        new_src = ''.join(buf)
        if changed:
            ast.parse(new_src)
            out[rel] = new_src
    return out
