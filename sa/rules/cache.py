"""R-CACHE [C12]: the grammar cache inside Lark.__init__ / _load / save.

 k1  the digest input transitively contains the grammar text, the option items, the lark version and
     the Python version;
 k2  the components are combined injectively (tuple repr / separators), not by bare concatenation;
 k3  every option left out of the key either cannot shape the cached object (and is re-applied at load:
     member of _LOAD_ALLOWED_OPTIONS) or is covered: its shaping access path is hashed, or the cache is
     switched off when it is set;
 g   _load is only reached when the file's header equals the key AND the used-files check passed;
 r   everything that reads or decodes the file sits in a try whose catch-all handler falls through;
 s   attributes _load may clobber before failing, and that the rebuild reads before re-assigning, are
     restored by the handler;
 w   every path from the handler / not-found path to the end of __init__ passes the write block, and
     the writer's record order equals the reader's;
 v   verify_used_files compares every recorded file with the digest function the importer used.
"""
from __future__ import annotations

import ast
from typing import Dict, List, Optional, Set, Tuple

from ..model import Repo, FuncInfo, AnalysisError, norm, parent, ancestors, enclosing_stmt, const_str
from ..report import Ctx, RuleResult
from ..cfg import cfg_of
from .serial import _self_attrs_assigned

INIT = 'lark.lark:Lark.__init__'


def _assignments(f: FuncInfo, name: str) -> List[ast.AST]:
    out = []
    for n in f.body_nodes():
        if isinstance(n, ast.Assign):
            for t in n.targets:
                if isinstance(t, ast.Name) and t.id == name:
                    out.append(n.value)
        elif isinstance(n, ast.AugAssign) and isinstance(n.target, ast.Name) and n.target.id == name:
            out.append(n.value)
        elif isinstance(n, ast.Call) and isinstance(n.func, ast.Attribute) and isinstance(n.func.value, ast.Name) \
                and n.func.value.id == name and n.func.attr in ('append', 'extend', 'update', 'add'):
            out.extend(n.args)
    return out


def _transitive_sources(f: FuncInfo, e: ast.AST, seen: Optional[Set[str]] = None) -> Tuple[Set[str], List[ast.AST]]:
    """names and attribute paths the expression depends on, chasing locals of f."""
    seen = seen if seen is not None else set()
    srcs: Set[str] = set()
    exprs = [e]
    for x in ast.walk(e):
        if isinstance(x, ast.Attribute):
            srcs.add(norm(x))
        if isinstance(x, ast.Name) and isinstance(x.ctx, ast.Load):
            srcs.add(x.id)
            if x.id not in seen:
                seen.add(x.id)
                for v in _assignments(f, x.id):
                    s2, e2 = _transitive_sources(f, v, seen)
                    srcs |= s2
                    exprs += e2
    return srcs, exprs


def run(ctx: Ctx) -> RuleResult:
    repo = ctx.repo
    res = RuleResult('R-CACHE', 'cache key determines the cached object; guarded load; fall back on any failure with the '
                                'instance restored; the fall-back rewrites the file')
    res.default_props = ['C11', 'C12']
    f = repo.func(INIT)
    lm = repo.module('lark.lark')
    allowed = set(lm.const('_LOAD_ALLOWED_OPTIONS'))
    site = '%s %s' % (f.loc(), f.qual)

    # ---- locate the digest ------------------------------------------------------------------
    digest_calls = [n for n in f.body_nodes() if isinstance(n, ast.Call) and isinstance(n.func, ast.Name)
                    and n.func.id == 'sha256_digest']
    if len(digest_calls) != 1:
        raise AnalysisError('R-CACHE: expected one sha256_digest call in Lark.__init__, found %d' % len(digest_calls))
    dcall = digest_calls[0]
    dstmt = enclosing_stmt(dcall)
    key_var = dstmt.targets[0].id if isinstance(dstmt, ast.Assign) and isinstance(dstmt.targets[0], ast.Name) else None
    if key_var is None:
        raise AnalysisError('R-CACHE: digest is not assigned to a local')
    srcs, exprs = _transitive_sources(f, dcall.args[0])
    kwargs_name = f.node.args.kwarg.arg if f.node.args.kwarg else 'options'
    gram = f.positional_names()[0]
    # k1
    need = {'grammar text': gram in srcs, 'option items': kwargs_name in srcs,
            'lark version': '__version__' in srcs, 'python version': any(s.startswith('sys.version') for s in srcs)}
    for what, ok in need.items():
        res.ob(site, 'k1: the digest input contains the %s' % what, ok)
        if not ok:
            res.finding(f, dstmt, 'the cache key does not depend on the %s: a cache written for another %s is served'
                        % (what, what), construct='key-missing:' + what)
    # option items: iterates kwargs.items() and keeps both key and value
    items_ok = False
    for e in exprs:
        for c in ast.walk(e):
            if isinstance(c, (ast.ListComp, ast.GeneratorExp, ast.SetComp)) and len(c.generators) == 1:
                g = c.generators[0]
                if isinstance(g.iter, ast.Call) and norm(g.iter.func) == kwargs_name + '.items' and isinstance(g.target, ast.Tuple):
                    tn = [x.id for x in g.target.elts if isinstance(x, ast.Name)]
                    used = {x.id for x in ast.walk(c.elt) if isinstance(x, ast.Name)}
                    items_ok = len(tn) == 2 and set(tn) <= used
                    comp = c
                    # ... and the only filter is membership of the name in the `unhashable` tuple (k3 accounts for those): a filter
                    # on the value (`if v`) makes `opt=False` and "not passed" -- whose default may be True -- share a key
                    flt_ok = all(isinstance(t_, ast.Compare) and len(t_.ops) == 1 and isinstance(t_.ops[0], ast.NotIn)
                                 and isinstance(t_.left, ast.Name) and t_.left.id == tn[0] for t_ in g.ifs) if len(tn) == 2 else False
                    if items_ok and not flt_ok:
                        res.ob(site, 'k1: options are left out of the key only by name (unhashable ones)', False)
                        res.finding(f, dstmt, 'the option part of the cache key filters options by something other than their name (%s): two '
                                    'configurations that differ in such an option share one cache file' % [norm(t_) for t_ in g.ifs],
                                    construct='key-filter')
    res.ob(site, 'k1: every passed option contributes its name and its value', items_ok)
    if not items_ok:
        res.finding(f, dstmt, 'the option part of the cache key does not include both name and value of every passed option',
                    construct='key-options')
        return res
    # k2: injective combination
    top = dcall.args[0]
    top_defs = _assignments(f, top.id) if isinstance(top, ast.Name) else [top]
    inj = True
    why = ''
    for d in top_defs:
        if isinstance(d, ast.BinOp) and isinstance(d.op, ast.Add):
            inj = False
            why = 'components are concatenated with +'
        elif isinstance(d, ast.JoinedStr):
            inj = False
            why = 'components are interpolated into one string without separators that cannot occur in them'
        elif isinstance(d, ast.Call) and isinstance(d.func, ast.Name) and d.func.id in ('repr', 'str') and d.args \
                and isinstance(d.args[0], (ast.Tuple, ast.List)):
            pass
        elif isinstance(d, ast.Call) and norm(d.func) in ('json.dumps', 'pickle.dumps'):
            pass
        else:
            inj = False
            why = 'digest input %s is not a repr/str of a tuple of the components' % norm(d)[:80]
    # the option part itself: a list of pairs, not ''.join(k + str(v))
    p = parent(comp)
    if isinstance(p, ast.Call) and isinstance(p.func, ast.Attribute) and p.func.attr == 'join':
        inj = False
        why = 'option names and values are joined without separators'
    elif not isinstance(comp.elt, (ast.Tuple, ast.List)):
        inj = False
        why = 'option name and value are fused into one string (%s)' % norm(comp.elt)
    res.ob(site, 'k2: key components are combined injectively', inj)
    if not inj:
        res.finding(f, dstmt, 'different (grammar, options) pairs can produce the same cache key: ' + why, construct='key-encoding')
    # ---- k3 -----------------------------------------------------------------------------------
    unhash_defs = [v for n in ['unhashable'] for v in _assignments(f, n)]
    excluded: Set[str] = set()
    for g in comp.generators:
        for cond in g.ifs:
            for x in ast.walk(cond):
                if isinstance(x, ast.Name):
                    for v in _assignments(f, x.id):
                        try:
                            excluded |= set(ast.literal_eval(v))
                        except Exception:
                            pass
                if isinstance(x, (ast.Tuple, ast.List, ast.Set)):
                    try:
                        excluded |= set(ast.literal_eval(x))
                    except Exception:
                        pass
                if isinstance(x, ast.Compare) and len(x.ops) == 1 and isinstance(x.ops[0], ast.NotEq):
                    for side in (x.left, x.comparators[0]):
                        if const_str(side) is not None:
                            excluded.add(const_str(side))
                if isinstance(x, ast.Call) and isinstance(x.func, ast.Attribute) and x.func.attr in ('startswith', 'endswith'):
                    excluded.add('<pattern:%s>' % norm(x))
    res.tables['excluded_from_key'] = sorted(excluded)
    res.tables['load_allowed'] = sorted(allowed)
    if not excluded:
        res.notes.append('no option is excluded from the key')
    # the cache block: the `if` whose body contains the digest
    cache_if = None
    for a in ancestors(dstmt):
        if isinstance(a, ast.If) and dstmt in a.body:
            cache_if = a
            break
    if cache_if is None:
        raise AnalysisError('R-CACHE: digest statement is not inside a cache `if` block')
    cache_nodes = {id(x) for x in ast.walk(cache_if)}
    # shaping sinks: arguments of grammar.compile / load_grammar and direct calls of an option on terminals/rules
    shaping: Dict[str, str] = {}
    key_paths = {s for s in srcs}
    for n in f.body_nodes():
        if id(n) in cache_nodes:
            continue
        if isinstance(n, ast.Call) and (norm(n.func).endswith('.compile') or norm(n.func) == 'load_grammar'):
            for a in list(n.args) + [k.value for k in n.keywords]:
                s2, e2 = _transitive_sources(f, a)
                for e in e2:
                    for x in ast.walk(e):
                        if isinstance(x, ast.Attribute) and norm(x.value).endswith('options') and x.attr in excluded:
                            shaping.setdefault(x.attr, 'flows into %s(...)' % norm(n.func))
                # control dependence: locals assigned under a test of the option
                for x in ast.walk(a):
                    if isinstance(x, ast.Name):
                        for st in f.body_nodes():
                            if isinstance(st, ast.If):
                                assigns = [y for y in ast.walk(st) if isinstance(y, ast.Assign)
                                           and any(isinstance(t, ast.Name) and t.id == x.id for t in y.targets)]
                                if assigns:
                                    for z in ast.walk(st.test):
                                        if isinstance(z, ast.Attribute) and norm(z.value).endswith('options') and z.attr in excluded:
                                            shaping.setdefault(z.attr, 'decides %s passed to %s(...)' % (x.id, norm(n.func)))
        if isinstance(n, ast.Call) and isinstance(n.func, ast.Attribute) and norm(n.func.value).endswith('options') \
                and n.func.attr in excluded:
            # the option is called: on what?
            loops = [a for a in ancestors(n) if isinstance(a, ast.For)]
            over = [norm(l.iter) for l in loops]
            if any(o.endswith(('.terminals', '.rules')) for o in over):
                shaping.setdefault(n.func.attr, 'is called on every element of %s' % over[0])
    res.tables['options_shaping_the_cached_object'] = shaping
    for o in sorted(excluded):
        if o.startswith('<pattern:'):
            res.ob(site, 'k3: options are excluded from the key by an explicit table', False)
            res.finding(f, dstmt, 'options are excluded from the cache key by a name pattern %s: cannot show that none of them '
                        'shapes the cached object' % o, construct='k3:pattern')
            continue
        if o in shaping:
            # covered: hashed access path, or cache off when set
            hashed = any(('options.%s.' % o) in s or s.endswith('options.%s' % o) and False for s in srcs)
            hashed_paths = [s for s in srcs if ('options.%s.' % o) in s]
            disabled = _cache_disabled_when_set(f, cache_if, o)
            ok = bool(hashed_paths) or disabled
            res.ob(site, 'k3: option %s (%s) is covered: hashed path %s / cache off when set: %s' % (
                o, shaping[o], hashed_paths, disabled), ok)
            if not ok:
                res.finding(f, dstmt, 'option %s %s but is neither part of the cache key nor does it switch the cache off: '
                            'a second build with a different %s is served the first one\'s parser' % (o, shaping[o], o),
                            construct='k3:' + o)
        else:
            ok = o in allowed
            res.ob(site, 'k3: option %s is not hashed and does not shape the cached object; re-applied at load '
                         '(in _LOAD_ALLOWED_OPTIONS)' % o, ok)
            if not ok:
                res.finding(f, dstmt, 'option %s is excluded from the cache key and is not re-applied when loading' % o,
                            construct='k3:' + o)
    # ---- g: guarded load -----------------------------------------------------------------------
    loads = [n for n in ast.walk(cache_if) if isinstance(n, ast.Call) and norm(n.func) == 'self._load']
    if len(loads) != 1:
        res.ob(site, 'g: exactly one _load call in the cache block', False)
        res.finding(f, cache_if, 'expected exactly one self._load call in the cache block, found %d' % len(loads), construct='g:loads')
        return res
    load = loads[0]
    # the constructor ends there exactly when it loaded: the `return` is in the block of the _load call (a return one level out hands
    # back an uninitialised object whenever the file is stale)
    blk_ = parent(enclosing_stmt(load))
    seq_ = next((getattr(blk_, fld_) for fld_ in ('body', 'orelse') if isinstance(getattr(blk_, fld_, None), list) and enclosing_stmt(load) in getattr(blk_, fld_)), [])
    rets_ = [r for r in ast.walk(cache_if) if isinstance(r, ast.Return)]
    okr = len(rets_) == 1 and rets_[0] in seq_ and seq_.index(rets_[0]) > seq_.index(enclosing_stmt(load))
    res.ob(site, 'g: the constructor returns early exactly after the guarded _load (same block)', okr)
    if not okr:
        res.finding(f, rets_[0] if rets_ else enclosing_stmt(load), 'the early return of the cache block is not in the block of the guarded self._load: with a stale '
                    'cache file the constructor returns an object that was never built (or goes on to rebuild after a successful load)', construct='g:return')
    guards = [a for a in ancestors(load) if isinstance(a, ast.If) and any(load is x for s in a.body for x in ast.walk(s))]
    gtext = ' and '.join(norm(g.test) for g in guards if id(g) in cache_nodes and g is not cache_if)
    # names holding the key or something computed from it (its encoded form kept in a local)
    key_derived: Dict[str, Optional[str]] = {key_var: None}
    for _round in range(3):
        for n_ in f.body_nodes():
            if isinstance(n_, ast.Assign) and len(n_.targets) == 1 and isinstance(n_.targets[0], ast.Name) and n_.targets[0].id not in key_derived:
                used = {x.id for x in ast.walk(n_.value) if isinstance(x, ast.Name)}
                if used & set(key_derived) and not isinstance(n_.value, ast.Constant):
                    encs = [norm(c_) for c_ in ast.walk(n_.value) if isinstance(c_, ast.Call) and isinstance(c_.func, ast.Attribute)
                            and c_.func.attr == 'encode' and norm(c_.func.value) in key_derived]
                    if encs:        # only encoded forms count as "the key in another representation"
                        key_derived[n_.targets[0].id] = encs[0]

    def _enc_of(node: ast.AST) -> List[str]:
        out_ = [norm(c_) for c_ in ast.walk(node) if isinstance(c_, ast.Call) and isinstance(c_.func, ast.Attribute) and c_.func.attr == 'encode'
                and norm(c_.func.value) == key_var]
        out_ += [key_derived[x.id] for x in ast.walk(node) if isinstance(x, ast.Name) and key_derived.get(x.id)]
        return out_
    hdr_ok = False
    hdr_cmp = None
    for g in guards:
        for c in ast.walk(g.test):
            if isinstance(c, ast.Compare) and len(c.ops) == 1 and isinstance(c.ops[0], ast.Eq):
                names = {x.id for x in ast.walk(c) if isinstance(x, ast.Name)}
                if names & set(key_derived):
                    hdr_ok = True
                    hdr_cmp = c
    ver_ok = any(isinstance(c, ast.Call) and norm(c.func) == 'verify_used_files' for g in guards for c in ast.walk(g.test))
    res.ob(site, 'g: _load dominated by header == key (%s)' % gtext, hdr_ok)
    if not hdr_ok:
        res.finding(f, enclosing_stmt(load), 'the cached parser is loaded without comparing the file header with the key', construct='g:header')
    res.ob(site, 'g: _load dominated by verify_used_files(...)', ver_ok)
    if not ver_ok:
        res.finding(f, enclosing_stmt(load), 'the cached parser is loaded without verifying the imported files', construct='g:used-files')
    # no `or` weakening in the guard
    weak = any(isinstance(c, ast.BoolOp) and isinstance(c.op, ast.Or) for g in guards if g is not cache_if for c in ast.walk(g.test))
    res.ob(site, 'g: the guard is a conjunction', not weak)
    if weak:
        res.finding(f, enclosing_stmt(load), 'the load guard contains a disjunction: one check alone lets the file through', construct='g:or')
    # ---- r: reads inside try / catch-all ---------------------------------------------------------
    tries = [n for n in ast.walk(cache_if) if isinstance(n, ast.Try)]
    the_try = None
    for t in tries:
        if any(load is x for s in t.body for x in ast.walk(s)):
            the_try = t
    ok = the_try is not None
    res.ob(site, 'r: the load sits in a try statement', ok)
    if not ok:
        res.finding(f, cache_if, 'reading the cache file is not protected by a try', construct='r:no-try')
        return res
    file_ops = [n for n in ast.walk(cache_if) if isinstance(n, ast.Call) and (
        norm(n.func) in ('pickle.load', 'self._load', 'FS.open', 'verify_used_files') or norm(n.func).endswith('.readline'))]
    in_try = {id(x) for s in the_try.body for x in ast.walk(s)}
    for op in file_ops:
        if norm(op.func) == 'FS.open' and any(isinstance(a, ast.Constant) and 'w' in str(a.value) for a in op.args):
            continue
        ok = id(op) in in_try
        res.ob(f.loc(op), 'r: %s is inside the protected region' % norm(op.func), ok)
        if not ok:
            res.finding(f, enclosing_stmt(op), '%s can raise on a damaged cache file outside the try' % norm(op.func),
                        construct='r:' + norm(op.func))
    catch_all = None
    for h in the_try.handlers:
        names = set()
        if h.type is None:
            catch_all = h
        else:
            for te in (h.type.elts if isinstance(h.type, ast.Tuple) else [h.type]):
                names.add(norm(te))
            if names & {'Exception', 'BaseException'}:
                catch_all = h
    ok = catch_all is not None
    res.ob(site, 'r: a catch-all `except Exception` handler exists', ok)
    if not ok:
        res.finding(f, the_try, 'no catch-all handler: a truncated or corrupted cache file makes Lark() raise (%s)' % [
            norm(h.type) if h.type else 'bare' for h in the_try.handlers], construct='r:handler')
        return res
    for h in the_try.handlers:
        esc = [n for s in h.body for n in ast.walk(s) if isinstance(n, (ast.Raise, ast.Return))]
        ok = not esc
        res.ob(f.loc(h), 'r/w: handler `except %s` falls through to the rebuild' % (norm(h.type) if h.type else ''), ok)
        if not ok:
            res.finding(f, h, 'the handler leaves __init__ (raise/return) instead of falling back to a rebuild', construct='r:escape')
    # ---- s: restore on failure ---------------------------------------------------------------------
    lark = repo.cls('lark.lark:Lark')
    a_load = _self_attrs_assigned(lark.methods['_load'])
    after = sorted([n for n in f.body_nodes() if getattr(n, 'lineno', 0) > the_try.end_lineno
                    and isinstance(n, ast.Attribute) and isinstance(n.value, ast.Name) and n.value.id == 'self'],
                   key=lambda n: (n.lineno, n.col_offset))
    first_access: Dict[str, ast.Attribute] = {}
    # within one statement, loads happen before the store of an assignment
    for n in after:
        cur = first_access.get(n.attr)
        if cur is None:
            first_access[n.attr] = n
        elif cur.lineno == n.lineno and isinstance(cur.ctx, ast.Store) and isinstance(n.ctx, ast.Load) \
                and enclosing_stmt(cur) is enclosing_stmt(n):
            first_access[n.attr] = n
    restored: Dict[str, str] = {}
    for st in catch_all.body:
        if isinstance(st, ast.Assign) and len(st.targets) == 1 and isinstance(st.targets[0], ast.Attribute) \
                and norm(st.targets[0].value) == 'self' and isinstance(st.value, ast.Name):
            restored[st.targets[0].attr] = st.value.id
    for attr in sorted(a_load):
        fa = first_access.get(attr)
        if fa is None or isinstance(fa.ctx, ast.Store):
            res.ob(site, 's: Lark.%s (assigned by _load) is re-assigned by the rebuild before it is read' % attr, True)
            continue
        saved = restored.get(attr)
        ok = False
        if saved:
            # saved local was assigned from self.attr before the try
            for n in f.body_nodes():
                if isinstance(n, ast.Assign) and any(isinstance(t, ast.Name) and t.id == saved for t in n.targets) \
                        and norm(n.value) == 'self.' + attr and n.lineno < the_try.lineno:
                    ok = True
        res.ob(site, 's: Lark.%s is read by the rebuild (line %d) after _load may have overwritten it: restored by the handler'
               % (attr, fa.lineno), ok)
        if not ok:
            res.finding(f, catch_all, 'a failing _load leaves self.%s overwritten and the rebuild reads it (line %d) before '
                        're-assigning it' % (attr, fa.lineno), construct='s:' + attr)
    # ---- w: rewrite ----------------------------------------------------------------------------------
    g = cfg_of(f.node)
    fn_var = None
    for n in f.body_nodes():
        if isinstance(n, ast.Call) and norm(n.func) == 'FS.open' and n.args and isinstance(n.args[0], ast.Name) \
                and any(isinstance(a, ast.Constant) and 'w' in str(a.value) for a in n.args[1:]):
            fn_var = n.args[0].id
            wopen = n
    ok = fn_var is not None
    res.ob(site, 'w: the cache file is opened for writing', ok)
    if not ok:
        res.finding(f, f.node, 'the cache file is never written', construct='w:no-write')
        return res
    wif = None
    for a in ancestors(wopen):
        if isinstance(a, ast.If) and norm(a.test) == fn_var:
            wif = a
    ok = wif is not None and parent(wif) is f.node
    res.ob(site, 'w: the write block is `if %s:` at the top level of __init__' % fn_var, ok)
    if not ok:
        res.finding(f, enclosing_stmt(wopen), 'the cache write is not an unconditional top-level `if %s:` block' % fn_var, construct='w:guard')
    else:
        wnode = g.node_of(wif)
        for h in the_try.handlers:
            hn = g.node_of(h)
            ok = g.must_pass(hn, [wnode], [g.exit], skip_exc=True)
            res.ob(f.loc(h), 'w: every path from this handler to the end of __init__ passes the write block', ok)
            if not ok:
                res.finding(f, h, 'after a failed/missing cache the file is not rewritten on some path', construct='w:path')
        # cache_fn is assigned on every path into the try
        # record order writer vs reader
    wwith = [n for n in ast.walk(wif or f.node) if isinstance(n, ast.With) and any(x is wopen for x in ast.walk(n.items[0].context_expr))]
    # the used-files table: second result of load_grammar(...)
    used_files_locals = set()
    for n in f.body_nodes():
        if isinstance(n, ast.Assign) and isinstance(n.value, ast.Call) and norm(n.value.func) == 'load_grammar' \
                and isinstance(n.targets[0], ast.Tuple) and len(n.targets[0].elts) == 2 and isinstance(n.targets[0].elts[1], ast.Name):
            used_files_locals.add(n.targets[0].elts[1].id)
    worder: List[str] = []
    if wwith:
        for st in wwith[0].body:
            for c in ast.walk(st):
                if isinstance(c, ast.Call):
                    t = norm(c.func)
                    if t.endswith('.write') and set(key_derived) & {x.id for x in ast.walk(c) if isinstance(x, ast.Name)}:
                        worder.append('header')
                    elif t == 'pickle.dump' and c.args and norm(c.args[0]) in used_files_locals:
                        worder.append('used_files')
                    elif t == 'self.save':
                        worder.append('data')
    rorder: List[str] = []
    for c in sorted([c for s in the_try.body for c in ast.walk(s) if isinstance(c, ast.Call)], key=lambda c: (c.lineno, c.col_offset)):
        t = norm(c.func)
        if t.endswith('.readline'):
            rorder.append('header')
        elif t == 'pickle.load':
            st = enclosing_stmt(c)
            tgt = st.targets[0].id if isinstance(st, ast.Assign) and isinstance(st.targets[0], ast.Name) else ''
            used_in_verify = any(isinstance(v, ast.Call) and norm(v.func) == 'verify_used_files' and v.args
                                 and ((tgt and norm(v.args[0]) == tgt) or v.args[0] is c) for v in ast.walk(the_try))
            used_in_load = load.args and ((tgt and norm(load.args[0]) == tgt) or load.args[0] is c)
            rorder.append('used_files' if used_in_verify else 'data' if used_in_load else '?')
    ok = worder == ['header', 'used_files', 'data'] and rorder == worder
    res.ob(site, 'w: writer records %s, reader records %s' % (worder, rorder), ok)
    if not ok:
        res.finding(f, wif or f.node, 'the cache writer emits %s but the reader expects %s' % (worder, rorder), construct='w:order')
    # save(f, exclude) strips the same options the loader re-applies
    saves = [c for c in ast.walk(wif or f.node) if isinstance(c, ast.Call) and norm(c.func) == 'self.save']
    ok = bool(saves) and len(saves[0].args) >= 2 and norm(saves[0].args[1]) == '_LOAD_ALLOWED_OPTIONS'
    res.ob(site, 'w: the cached data excludes exactly the load-allowed options (which the caller re-supplies)', ok)
    if not ok:
        res.finding(f, wif or f.node, 'the cache does not strip the load-allowed options from the stored data', construct='w:exclude')
    # header encoding agreement
    enc_w = [e_ for c in ast.walk(wif or f.node) if isinstance(c, ast.Call) and norm(c.func).endswith('.write') for e_ in _enc_of(c)]
    enc_r = _enc_of(hdr_cmp) if hdr_cmp is not None else []
    ok = bool(enc_w) and enc_w[:1] == enc_r[:1]
    res.ob(site, 'w: header written as %s, compared with %s' % (enc_w[:1], enc_r[:1]), ok)
    if not ok:
        res.finding(f, wif or f.node, 'header encoding differs between writer %s and reader %s' % (enc_w, enc_r), construct='w:encoding')
    _verify_used(ctx, res)
    # k4: objects that reach the key through str()/repr() (import_paths may hold FromPackageLoader instances) print every field
    for cq in ('lark.load_grammar:FromPackageLoader',):
        k_ = repo.cls(cq)
        init_ = k_.methods.get('__init__')
        rp = k_.methods.get('__repr__')
        if init_ is None or rp is None:
            raise AnalysisError('R-CACHE: %s.__init__/__repr__ not found (anchor vanished)' % cq)
        sn_ = init_.self_name()
        flds = sorted({t.attr for a in init_.body_nodes() if isinstance(a, ast.Assign) for t in a.targets
                       if isinstance(t, ast.Attribute) and isinstance(t.value, ast.Name) and t.value.id == sn_})
        rsn = rp.self_name()
        shown = {x.attr for x in rp.body_nodes() if isinstance(x, ast.Attribute) and isinstance(x.value, ast.Name) and x.value.id == rsn}
        ok = set(flds) <= shown
        res.ob('%s %s' % (rp.loc(), rp.qual), 'k4: repr() of a loader that can sit in import_paths shows all its fields %s' % flds, ok)
        if not ok:
            res.finding(rp, rp.node, '%s.__repr__ leaves out %s: the cache key sees import_paths only through repr(), so two loaders that differ '
                        'there share one cache file' % (k_.name, sorted(set(flds) - shown)), construct='k4:repr:%s' % k_.name)
    # w: the cache file is opened through FS.open, which hands the mode on unchanged ('wb' truncates: a writer that dies half-way
    # never leaves the new header in front of the old body)
    fso = repo.func('lark.utils:FS.open')
    mparam = next((p_ for p_ in fso.positional_names() if p_ == 'mode'), None)
    opens = [c for c in fso.body_nodes() if isinstance(c, ast.Call) and norm(c.func) in ('open', 'atomicwrites.atomic_write')]
    ok = mparam is not None and bool(opens)
    for c in opens:
        marg = None
        if norm(c.func) == 'open' and len(c.args) >= 2:
            marg = c.args[1]
        for kw in c.keywords:
            if kw.arg == 'mode':
                marg = kw.value
        if marg is None or norm(marg) != mparam:
            ok = False
    res.ob('%s %s' % (fso.loc(), fso.qual), 'w: FS.open passes the caller\'s mode through unchanged', ok)
    if not ok:
        res.finding(fso, fso.node, 'FS.open opens the file with a mode other than the one it was given: the cache writer asks for "wb" '
                    '(truncate); anything else can leave a new header in front of an old body', construct='w:fs-mode')
    # r: the path of the cache file is decided once, before the load attempt; the failure path does not redirect or drop it
    if fn_var is not None and the_try is not None:
        inside = {id(x) for x in ast.walk(the_try)}
        late = [n_ for n_ in f.body_nodes() if isinstance(n_, ast.Assign) and any(isinstance(t, ast.Name) and t.id == fn_var for t in n_.targets)
                and (id(n_) in inside or n_.lineno > the_try.end_lineno)]
        ok = not late
        res.ob(site, 'r: the cache path `%s` is not reassigned by or after the load attempt' % fn_var, ok)
        for n_ in late:
            res.finding(f, n_, 'the cache path is changed after the load attempt (%s): a file that could not be loaded is then never replaced '
                        'by a valid one (every later start fails to load it again and recompiles)' % norm(n_), construct='r:path-reassigned')
    return res


def _cache_disabled_when_set(f: FuncInfo, cache_if: ast.If, opt: str) -> bool:
    """The cache block is switched off whenever option `opt` is set:
       - its test (or an enclosing elif chain) requires the option to be unset, or
       - the flag the test reads is assigned False under `... and options.<opt> is not None`."""
    test_names = {x.id for x in ast.walk(cache_if.test) if isinstance(x, ast.Name)}
    for n in f.body_nodes():
        if isinstance(n, ast.If) and n is not cache_if and n.lineno < cache_if.lineno:
            mentions = any(isinstance(x, ast.Attribute) and x.attr == opt and norm(x.value).endswith('options')
                           for x in ast.walk(n.test))
            if not mentions:
                continue
            # elif chain: `if cache and opt is not None: ... elif cache: <cache block>`
            if cache_if in n.orelse:
                return True
            for st in n.body:
                if isinstance(st, ast.Assign) and isinstance(st.value, ast.Constant) and st.value.value in (False, None) \
                        and any(isinstance(t, ast.Name) and t.id in test_names for t in st.targets):
                    return True
                if isinstance(st, ast.Raise):
                    return True
    # the test itself requires the option to be unset
    for c in ast.walk(cache_if.test):
        if isinstance(c, ast.Compare) and isinstance(c.ops[0], ast.Is) and isinstance(c.left, ast.Attribute) and c.left.attr == opt:
            return True
    return False


def _verify_used(ctx: Ctx, res: RuleResult):
    repo = ctx.repo
    v = repo.func('lark.load_grammar:verify_used_files')
    site = '%s %s' % (v.loc(), v.qual)
    loops = [n for n in v.node.body if isinstance(n, ast.For)]
    ok = len(loops) == 1 and norm(loops[0].iter).endswith('.items()')
    rets_false = []
    if ok:
        loop = loops[0]
        tv = [x.id for x in loop.target.elts] if isinstance(loop.target, ast.Tuple) else []
        for n in ast.walk(loop):
            if isinstance(n, ast.If) and any(isinstance(s, ast.Return) and isinstance(s.value, ast.Constant) and s.value.value is False
                                             for s in n.body):
                rets_false.append(n)
        ok = len(rets_false) == 1 and isinstance(rets_false[0].test, ast.Compare) and isinstance(rets_false[0].test.ops[0], ast.NotEq) \
            and len(tv) == 2 and tv[1] in {x.id for x in ast.walk(rets_false[0].test) if isinstance(x, ast.Name)}
        # current digest computed with sha256_digest over the file's text
        digs = [n for n in ast.walk(loop) if isinstance(n, ast.Call) and norm(n.func) == 'sha256_digest']
        ok = ok and len(digs) == 1
        last = v.node.body[-1]
        ok = ok and isinstance(last, ast.Return) and isinstance(last.value, ast.Constant) and last.value.value is True
        # no early `return True` inside the loop
        early = [n for n in ast.walk(loop) if isinstance(n, ast.Return) and isinstance(n.value, ast.Constant) and n.value.value is True]
        ok = ok and not early
    res.ob(site, 'v: every recorded file is compared (recorded digest != current digest -> False; True only after the loop)', ok)
    if not ok:
        res.finding(v, v.node, 'verify_used_files does not compare every recorded import with its current digest', construct='v:shape', props=['C11', 'C12', 'C17'])
    # pure: no state survives a call (a memo would hide an edit of an imported file made later in the same process)
    from .effects import writes_of
    local_names = set(v.param_names())
    for n in v.body_nodes():
        if isinstance(n, ast.Name) and isinstance(n.ctx, ast.Store):
            local_names.add(n.id)
    globals_decl = {x for n in v.body_nodes() if isinstance(n, ast.Global) for x in n.names}
    impure = []
    for w in writes_of(v):
        root = w.recv
        while isinstance(root, (ast.Attribute, ast.Subscript)):
            root = root.value
        if isinstance(root, ast.Name) and (root.id not in local_names or root.id in globals_decl):
            impure.append(norm(w.stmt)[:70])
        if w.what == 'global':
            impure.append(norm(w.stmt)[:70])
    okp = not impure
    res.ob(site, 'v: verify_used_files keeps no state between calls', okp)
    if not okp:
        res.finding(v, v.node, 'verify_used_files remembers results across calls (%s): an imported file edited later in the same '
                    'process is no longer re-read and the stale cache is served' % impure[:2], construct='v:memo')
    if loops:
        conts = [n for n in ast.walk(loops[0]) if isinstance(n, ast.Continue)]
        okc = True
        for c in conts:
            g_ = [a for a in ancestors(c) if isinstance(a, ast.If)]
            digested = {norm(d.args[0]) for d in digs if d.args}
            t_ = g_[0].test if g_ else None
            okc = okc and t_ is not None and isinstance(t_, ast.Compare) and isinstance(t_.ops[0], ast.Is) \
                and isinstance(t_.comparators[0], ast.Constant) and t_.comparators[0].value is None and norm(t_.left) in digested
        res.ob(site, 'v: a recorded file is skipped only when it cannot be read at all', okc)
        if not okc:
            res.finding(v, v.node, 'verify_used_files skips the comparison of some recorded files', construct='v:skip')
    imp = repo.func('lark.load_grammar:GrammarBuilder.do_import')
    rec = [n for n in imp.body_nodes() if isinstance(n, ast.Assign) and isinstance(n.targets[0], ast.Subscript)
           and norm(n.targets[0].value) == 'self.used_files']
    ok = len(rec) == 1
    if ok:
        val = rec[0].value
        defs = _assignments(imp, val.id) if isinstance(val, ast.Name) else [val]
        ok = any(isinstance(d, ast.Call) and norm(d.func) == 'sha256_digest' for d in defs)
    res.ob('%s %s' % (imp.loc(), imp.qual), 'v: every imported file is recorded with the same digest function', ok)
    if not ok:
        res.finding(imp, imp.node, 'imported grammar files are not recorded with sha256_digest of their text', construct='v:record')
    # load_grammar hands the used files back to Lark.__init__, which writes them
    lg = repo.func('lark.load_grammar:load_grammar')
    ok = any(isinstance(n, ast.Return) and 'used_files' in norm(n.value) for n in lg.body_nodes() if isinstance(n, ast.Return) and n.value is not None)
    res.ob('%s %s' % (lg.loc(), lg.qual), 'v: load_grammar returns the used-files table', ok)
    if not ok:
        res.finding(lg, lg.node, 'load_grammar does not return the used-files table', construct='v:return')
