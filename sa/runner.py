"""Per-property runner: builds the model of /repo's working tree, runs the rules serving the property,
evaluates positive controls, applies the known-findings file, writes evidence, prints verdict lines."""
from __future__ import annotations

import importlib
import json
import os
import sys
import time
import traceback
from typing import Dict, List, Optional

from .model import Repo, AnalysisError
from .report import (Ctx, Finding, RuleResult, split_known, write_evidence, write_replay, load_known,
                     EVIDENCE_DIR)
from . import registry


def run_rules(ctx: Ctx, prop: str, refused: Optional[list] = None) -> List[RuleResult]:
    """Run the rules serving `prop`.  With `refused` given, a rule that refuses to judge (AnalysisError: a construct it cannot
    find) or crashes is recorded there and the other rules still run: what *they* find is about constructs they recognised and
    stands on its own -- a refusal never masks a violation.  Whether the run as a whole can pass is the caller's decision."""
    results = []
    for rule_id in registry.PROPERTIES[prop]['rules']:
        fn = registry.rule_fn(rule_id)
        try:
            res = fn(ctx)
            if not isinstance(res, RuleResult):
                raise AnalysisError('rule %s returned no result' % rule_id)
        except AnalysisError as e:
            if refused is None:
                raise
            refused.append((rule_id, str(e)))
            continue
        except Exception:
            if refused is None:
                raise
            refused.append((rule_id, 'internal error\n' + traceback.format_exc()))
            continue
        results.append(res)
    return results


def findings_for(results: List[RuleResult], prop: str) -> List[Finding]:
    out = []
    seen = set()
    for r in results:
        for f in r.findings:
            if f.props is not None and prop not in f.props:
                continue
            if f.key in seen:
                continue
            seen.add(f.key)
            out.append(f)
    return out


def run_property(prop: str, tier: str = 'quick', replay: Optional[str] = None) -> int:
    t0 = time.time()
    seed = int(os.environ.get('VERIF_SEED', '0') or 0)
    if prop not in registry.PROPERTIES:
        print('ANALYSIS-ERROR unknown or unclaimed property %s' % prop)
        return 2
    spec = registry.PROPERTIES[prop]
    try:
        repo = Repo()
        ctx = Ctx(repo, tier)
        refused: list = []
        results = run_rules(ctx, prop, refused)
        if refused and not split_known(findings_for(results, prop), prop)[1]:
            # nothing found by the rules that could judge: the run cannot pass, and says why
            for rid, msg in refused:
                print('ANALYSIS-ERROR %s: %s' % (prop, msg))
            return 2
        for rid, msg in refused:
            # a violation is reported below by a rule that recognised its construct; the refusal is noted, not decisive
            print('NOTE %s: rule %s refused to judge this tree (%s)' % (prop, rid, msg.splitlines()[0][:300]))
        # positive controls / variants
        from . import variants
        control_report = variants.run_controls(prop, tier)
        for r in results:
            r.controls = [c for c in control_report if c['rule'] == r.rule]
        bad = [c for c in control_report if c['status'] == 'wrong']
        fs = findings_for(results, prop)
        known, new, keys = split_known(fs, prop)
        if bad and not new:
            # (a wrong control never masks a violation: those are reported below and decide the exit status)
            for c in bad:
                print('ANALYSIS-ERROR control %s/%s: expected %s, rule %s' % (
                    c['rule'], c['name'], c['expect'], c['got']))
            return 2
        extra = {}
        try:
            cg = ctx._tc[1] if ctx._tc is not None else None
            if cg is not None:
                extra['call_resolution'] = dict(cg.stats)
                extra['unfollowed_dynamic_attribute_access'] = cg.unfollowed_getattr
        except Exception:
            pass
        extra['controls'] = {'applied': sum(1 for c in control_report if c['status'] == 'ok'),
                             'skipped_anchor_text_changed': [c['name'] for c in control_report if c['status'] == 'skipped']}
        corp = [c for c in control_report if c['rule'].startswith('<corpus')]
        if corp:
            extra['corpus'] = {
                'seeded_changes_still_reported': sum(1 for c in corp if c['expect'] == 'fire' and c['status'] == 'ok'),
                'behaviour_preserving_edits_silent': sum(1 for c in corp if c['expect'] == 'silent' and c['status'] == 'ok'),
                'skipped_patch_does_not_fit_or_undecided': [c['name'] for c in corp if c['status'] == 'skipped'],
            }
        if replay:
            want = json.loads(open(replay).read())
            hit = [f for f in fs if f.key == want.get('key')]
            if hit:
                print(hit[0].diagnostic())
                print('VIOLATION property=%s replay=%s' % (prop, replay))
                return 1
            print('replay: finding %s is no longer reported on the current tree' % want.get('key'))
            return 0
        for f in known:
            print('KNOWN-FINDING: property=%s %s' % (prop, keys[f.key].get('what', f.message)))
        rc = 0
        for i, f in enumerate(new):
            p = write_replay(prop, f, i)
            print(f.diagnostic())
            print('VIOLATION property=%s replay=%s' % (prop, p))
            rc = 1
        wall = time.time() - t0
        write_evidence(prop, tier, seed, results, new, known, wall, repo, spec['level_text'], extra,
                       spec.get('assumptions', []), len(new))
        nob = sum(len(r.obligations) for r in results)
        print('%s %s: %d rules, %d obligations, %d known, %d new findings, %d controls, %.2fs' % (
            prop, tier, len(results), nob, len(known), len(new), len(control_report), wall))
        return rc
    except AnalysisError as e:
        print('ANALYSIS-ERROR %s: %s' % (prop, e))
        return 2
    except Exception:
        print('ANALYSIS-ERROR %s: internal error\n%s' % (prop, traceback.format_exc()))
        return 2
