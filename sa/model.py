"""Repository model: modules, classes, functions, imports, constants, stand-alone sections.

Pure `ast`; nothing is imported or executed from the repository under analysis.
"""
from __future__ import annotations

import ast
import os
import re
from pathlib import Path
from typing import Dict, List, Optional, Tuple, Iterator, Any, Set

PKG = 'lark'


class AnalysisError(Exception):
    """The checker cannot do its job (anchor vanished, file unparsable, instance count too low ...).
    Reported as ANALYSIS-ERROR / exit 2, never as a property violation."""


def repo_root() -> Path:
    return Path(os.environ.get('VERIF_REPO', '/repo'))


def norm(node: ast.AST) -> str:
    """Normalised source text of a node: comments, layout and quote style removed."""
    try:
        return ast.unparse(node)
    except Exception:  # pragma: no cover
        return '<unparse failed>'


def core_stmts(body: List[ast.stmt]) -> List[ast.stmt]:
    """The statements of a block that do something: docstrings, `pass`, assertions and logger calls are left out
    (positional clauses -- "the first statement is the guard" -- must not depend on them)."""
    out = []
    for st in body:
        if isinstance(st, (ast.Pass, ast.Assert)):
            continue
        if isinstance(st, ast.Expr) and isinstance(st.value, ast.Constant):
            continue
        if isinstance(st, ast.Expr) and isinstance(st.value, ast.Call) and isinstance(st.value.func, ast.Attribute) \
                and isinstance(st.value.func.value, ast.Name) and st.value.func.value.id in ('logger', 'logging', 'log') \
                and st.value.func.attr in ('debug', 'info', 'warning', 'warn', 'error', 'exception', 'log'):
            continue
        out.append(st)
    return out


class Module:
    def __init__(self, name: str, path: Path, relpath: str, src: str):
        self.name = name
        self.path = path
        self.relpath = relpath          # 'lark/lexer.py'
        self.src = src
        self.lines = src.splitlines(True)
        try:
            self.tree = ast.parse(src, filename=str(path))
        except SyntaxError as e:
            raise AnalysisError('cannot parse %s: %s' % (relpath, e))
        if not os.environ.get('VERIF_NO_NORMALISE'):
            from .normalise import normalise
            normalise(self.tree)        # canonical spelling (docstrings, constant side of ==, if-expressions, temporaries)
        self.link_parents()
        self.imports: Dict[str, Tuple[str, Optional[str]]] = {}   # local name -> (module, attr or None)
        self.classes: Dict[str, 'ClassInfo'] = {}
        self.functions: Dict[str, 'FuncInfo'] = {}                # module-level functions
        self.assigns: Dict[str, List[ast.AST]] = {}               # module-level name -> value nodes
        self.standalone_ranges: List[Tuple[int, int]] = []        # 1-based inclusive line ranges
        self._scan_standalone()

    def link_parents(self):
        shared = (ast.expr_context, ast.operator, ast.boolop, ast.unaryop, ast.cmpop)    # parser singletons, shared by all trees
        for parent in ast.walk(self.tree):
            for child in ast.iter_child_nodes(parent):
                if not isinstance(child, shared):
                    child._parent = parent  # type: ignore[attr-defined]
        self.tree._parent = None  # type: ignore[attr-defined]

    def _scan_standalone(self):
        start = None
        for i, line in enumerate(self.lines, 1):
            if line.startswith('###'):
                if len(line) > 3 and line[3] == '{':
                    if line[4:].strip() == 'standalone':
                        start = i + 1
                elif len(line) > 3 and line[3] == '}':
                    if start is not None:
                        self.standalone_ranges.append((start, i - 1))
                    start = None

    def in_standalone(self, node: ast.AST) -> bool:
        ln = getattr(node, 'lineno', None)
        return ln is not None and any(a <= ln <= b for a, b in self.standalone_ranges)

    def standalone_text(self) -> str:
        out = []
        for a, b in self.standalone_ranges:
            out.extend(self.lines[a - 1:b])
        return ''.join(out)

    def const(self, name: str) -> Any:
        """literal_eval of the (last) module-level assignment to `name`."""
        vals = self.assigns.get(name)
        if not vals:
            raise AnalysisError('constant %s not found in %s' % (name, self.relpath))
        try:
            return ast.literal_eval(vals[-1])
        except Exception as e:
            raise AnalysisError('constant %s in %s is not a literal: %s' % (name, self.relpath, e))

    def const_keys(self, name: str) -> List[Any]:
        """Keys of a module-level dict display (values need not be literals)."""
        vals = self.assigns.get(name)
        if not vals or not isinstance(vals[-1], ast.Dict):
            raise AnalysisError('constant dict %s not found in %s' % (name, self.relpath))
        try:
            return [ast.literal_eval(k) for k in vals[-1].keys]
        except Exception as e:
            raise AnalysisError('keys of %s in %s are not literals: %s' % (name, self.relpath, e))

    def loc(self, node: ast.AST) -> str:
        return '%s:%s' % (self.relpath, getattr(node, 'lineno', '?'))


class ClassInfo:
    def __init__(self, module: Module, node: ast.ClassDef, outer: Optional['ClassInfo'] = None,
                 owner_func: Optional['FuncInfo'] = None):
        self.module = module
        self.node = node
        self.name = node.name
        prefix = ''
        if outer is not None:
            prefix = outer.qualname + '.'
        elif owner_func is not None:
            prefix = owner_func.qualname + '.'
        self.qualname = prefix + node.name
        self.qual = '%s:%s' % (module.name, self.qualname)
        self.methods: Dict[str, 'FuncInfo'] = {}
        self.class_attrs: Dict[str, ast.AST] = {}     # name -> value node (last)
        self.annotations: Dict[str, ast.AST] = {}
        self.bases: List['ClassInfo'] = []            # resolved package bases
        self.base_exprs: List[ast.AST] = list(node.bases)
        self.subclasses: List['ClassInfo'] = []
        self.owner_func = owner_func

    def __repr__(self):
        return '<class %s>' % self.qual

    # -- hierarchy -------------------------------------------------------------------------
    def swept_methods(self) -> List['FuncInfo']:
        """Methods for rules that sweep the whole class: helpers that were looked through at their call sites are left out."""
        return [m for m in self.methods.values() if not m.looked_through]

    def mro(self) -> List['ClassInfo']:
        out = [self]
        for b in self.bases:
            for k in b.mro():
                if k not in out:
                    out.append(k)
        return out

    def all_subclasses(self) -> List['ClassInfo']:
        out: List[ClassInfo] = []
        for s in self.subclasses:
            if s not in out:
                out.append(s)
            for k in s.all_subclasses():
                if k not in out:
                    out.append(k)
        return out

    def is_subclass_of(self, other: 'ClassInfo') -> bool:
        return other in self.mro()

    def find_method(self, name: str) -> Optional['FuncInfo']:
        for k in self.mro():
            if name in k.methods:
                return k.methods[name]
        return None

    def find_attr(self, name: str) -> Optional[Tuple['ClassInfo', ast.AST]]:
        for k in self.mro():
            if name in k.class_attrs:
                return k, k.class_attrs[name]
        return None

    def dispatch(self, name: str) -> List['FuncInfo']:
        """CHA: the definition seen from this class plus every override in subclasses."""
        out = []
        m = self.find_method(name)
        if m is not None:
            out.append(m)
        for s in self.all_subclasses():
            if name in s.methods and s.methods[name] not in out:
                out.append(s.methods[name])
        return out

    def slots(self) -> Optional[List[str]]:
        v = self.class_attrs.get('__slots__')
        if v is None:
            return None
        try:
            s = ast.literal_eval(v)
        except Exception:
            return None
        return [s] if isinstance(s, str) else list(s)

    def literal_attr(self, name: str):
        r = self.find_attr(name)
        if r is None:
            return None
        try:
            return ast.literal_eval(r[1])
        except Exception:
            return None

    def external_base_names(self) -> List[str]:
        return [norm(b) for b in self.base_exprs]


class FuncInfo:
    def __init__(self, module: Module, node, cls: Optional[ClassInfo], parent: Optional['FuncInfo']):
        self.module = module
        self.node = node
        self.cls = cls                 # class this is a method of (None for plain / nested functions)
        self.parent = parent           # enclosing function, for nested functions
        self.name = getattr(node, 'name', '<lambda>')
        if parent is not None:
            self.qualname = parent.qualname + '.' + self.name
        elif cls is not None:
            self.qualname = cls.qualname + '.' + self.name
        else:
            self.qualname = self.name
        self.qual = '%s:%s' % (module.name, self.qualname)
        self.nested: Dict[str, 'FuncInfo'] = {}
        self.nested_classes: Dict[str, ClassInfo] = {}
        self.lambdas: List['FuncInfo'] = []

    def __repr__(self):
        return '<func %s>' % self.qual

    @property
    def owner_class(self) -> Optional[ClassInfo]:
        """Class whose `self` is visible here (method, or function nested in a method)."""
        f: Optional[FuncInfo] = self
        while f is not None:
            if f.cls is not None:
                return f.cls
            f = f.parent
        return None

    @property
    def decorators(self) -> List[str]:
        return [norm(d) for d in getattr(self.node, 'decorator_list', [])]

    @property
    def is_property(self) -> bool:
        return any(d == 'property' or d.endswith('.setter') or d == 'cached_property' for d in self.decorators)

    @property
    def is_classmethod(self) -> bool:
        return 'classmethod' in self.decorators

    @property
    def is_staticmethod(self) -> bool:
        return 'staticmethod' in self.decorators

    @property
    def is_overload(self) -> bool:
        return 'overload' in self.decorators

    def params(self) -> List[ast.arg]:
        a = self.node.args
        out = list(a.posonlyargs) + list(a.args)
        if a.vararg:
            out.append(a.vararg)
        out += list(a.kwonlyargs)
        if a.kwarg:
            out.append(a.kwarg)
        return out

    def param_names(self) -> List[str]:
        return [p.arg for p in self.params()]

    def positional_names(self, drop_self: bool = True) -> List[str]:
        a = self.node.args
        names = [p.arg for p in list(a.posonlyargs) + list(a.args)]
        if drop_self and self.cls is not None and not self.is_staticmethod and names:
            names = names[1:]
        return names

    def self_name(self) -> Optional[str]:
        if self.cls is not None and not self.is_staticmethod:
            a = self.node.args
            ps = list(a.posonlyargs) + list(a.args)
            if ps:
                return ps[0].arg
        if self.parent is not None:
            return self.parent.self_name()
        return None

    def body_nodes(self, include_nested: bool = False):
        """Cached list form of _body_nodes (the AST is immutable once parsed)."""
        cache = self.__dict__.setdefault('_bn_cache', {})
        r = cache.get(include_nested)
        if r is None:
            r = list(self._body_nodes(include_nested))
            cache[include_nested] = r
        return r

    def _body_nodes(self, include_nested: bool = False) -> Iterator[ast.AST]:
        """All AST nodes of the body; nested function/class bodies are skipped unless asked
        (lambdas and comprehensions are always included: they run as part of this function
        or are created here)."""
        stack = list(reversed(self.node.body)) if not isinstance(self.node, ast.Lambda) else [self.node.body]
        while stack:
            n = stack.pop()
            yield n
            if not include_nested and isinstance(n, (ast.FunctionDef, ast.AsyncFunctionDef, ast.ClassDef)):
                # the def node itself is yielded (it is a statement of this body), its body is not
                continue
            for c in ast.iter_child_nodes(n):
                stack.append(c)

    def loc(self, node: Optional[ast.AST] = None) -> str:
        return self.module.loc(node if node is not None else self.node)

    @property
    def looked_through(self) -> bool:
        """A helper unknown to the rules whose body was substituted at its call sites (normalise P2): rules that sweep
        "all methods of the class" skip it, its code is judged where it is called."""
        return bool(getattr(self.node, '_looked_through', False))


class Repo:
    def __init__(self, root: Optional[Path] = None, overlay: Optional[Dict[str, str]] = None):
        self.root = Path(root) if root is not None else repo_root()
        self.overlay = overlay or {}
        self.modules: Dict[str, Module] = {}
        self.classes: Dict[str, ClassInfo] = {}      # qual -> class
        self.functions: Dict[str, FuncInfo] = {}     # qual -> func
        self.files: List[str] = []
        self._load()
        self._link_imports()
        self._link_bases()

    # -- loading ---------------------------------------------------------------------------
    def _load(self):
        pkg = self.root / PKG
        if not pkg.is_dir():
            raise AnalysisError('package directory %s not found' % pkg)
        for path in sorted(pkg.rglob('*.py')):
            rel = path.relative_to(self.root).as_posix()
            if '__pycache__' in rel or '/__pyinstaller/' in rel:
                continue
            parts = list(path.relative_to(self.root).with_suffix('').parts)
            if parts[-1] == '__init__':
                parts = parts[:-1]
            name = '.'.join(parts)
            src = self.overlay[rel] if rel in self.overlay else path.read_text(encoding='utf8')
            mod = Module(name, path, rel, src)
            mod.is_package = path.name == '__init__.py'   # type: ignore[attr-defined]
            self.modules[name] = mod
            self.files.append(rel)
        if not os.environ.get('VERIF_NO_NORMALISE'):
            # whole-package canonicalisation (needs every signature): keyword arguments, helpers the rules do not know
            from .normalise import normalise_package
            normalise_package({m.name: m.tree for m in self.modules.values()})
            for mod in self.modules.values():
                mod.link_parents()
        for mod in self.modules.values():
            self._collect(mod, mod.tree.body, None, None)

    def _collect(self, mod: Module, body, cls: Optional[ClassInfo], func: Optional[FuncInfo]):
        for n in body:
            if isinstance(n, ast.ClassDef):
                c = ClassInfo(mod, n, outer=cls if func is None else None, owner_func=func)
                self.classes[c.qual] = c
                if cls is None and func is None:
                    mod.classes[n.name] = c
                elif func is not None:
                    func.nested_classes[n.name] = c
                self._collect(mod, n.body, c, None)
            elif isinstance(n, (ast.FunctionDef, ast.AsyncFunctionDef)):
                f = FuncInfo(mod, n, cls if func is None else None, func)
                if f.qual in self.functions:
                    # overloads / redefinitions: keep the last (the real implementation), but remember all
                    prev = self.functions[f.qual]
                    f.previous = prev  # type: ignore[attr-defined]
                self.functions[f.qual] = f
                if func is not None:
                    func.nested[n.name] = f
                elif cls is not None:
                    cls.methods[n.name] = f
                else:
                    mod.functions[n.name] = f
                self._collect(mod, n.body, None, f)
            elif isinstance(n, (ast.Assign, ast.AnnAssign, ast.AugAssign)):
                targets = n.targets if isinstance(n, ast.Assign) else [n.target]
                for t in targets:
                    if isinstance(t, ast.Name):
                        if cls is not None and func is None:
                            if isinstance(n, ast.AnnAssign):
                                cls.annotations[t.id] = n.annotation
                            if getattr(n, 'value', None) is not None:
                                cls.class_attrs[t.id] = n.value
                        elif cls is None and func is None:
                            if getattr(n, 'value', None) is not None:
                                mod.assigns.setdefault(t.id, []).append(n.value)
            elif isinstance(n, (ast.If, ast.Try, ast.With, ast.For, ast.While)):
                inner = []
                for field in ('body', 'orelse', 'finalbody'):
                    inner += getattr(n, field, [])
                for h in getattr(n, 'handlers', []):
                    inner += h.body
                self._collect(mod, inner, cls, func)
        # lambdas are registered lazily by the resolver

    def _abs_module(self, mod: Module, level: int, name: Optional[str]) -> str:
        if level == 0:
            return name or ''
        parts = mod.name.split('.')
        if not getattr(mod, 'is_package', False):
            parts = parts[:-1]
        if level > 1:
            parts = parts[:-(level - 1)]
        if name:
            parts = parts + name.split('.')
        return '.'.join(parts)

    def _link_imports(self):
        for mod in self.modules.values():
            for n in ast.walk(mod.tree):
                if isinstance(n, ast.ImportFrom):
                    base = self._abs_module(mod, n.level, n.module)
                    for a in n.names:
                        local = a.asname or a.name
                        sub = base + '.' + a.name if base else a.name
                        if sub in self.modules:
                            mod.imports[local] = (sub, None)
                        else:
                            mod.imports[local] = (base, a.name)
                elif isinstance(n, ast.Import):
                    for a in n.names:
                        local = (a.asname or a.name).split('.')[0]
                        mod.imports[local] = (a.name if a.asname else a.name.split('.')[0], None)

    def _link_bases(self):
        for c in self.classes.values():
            for b in c.base_exprs:
                e = b
                if isinstance(e, ast.Subscript):      # Generic[...] / Transformer[...]
                    e = e.value
                k = self.resolve_class_expr(c.module, e, c.owner_func)
                if k is not None and k is not c:
                    c.bases.append(k)
                    k.subclasses.append(c)

    # -- lookups ---------------------------------------------------------------------------
    def module(self, name: str) -> Module:
        try:
            return self.modules[name]
        except KeyError:
            raise AnalysisError('module %s not found (anchor vanished)' % name)

    def text(self, rel: str) -> str:
        """Text of a non-Python file of the tree (bundled grammars), overlay-aware; recorded among the analysed files."""
        if rel in self.overlay:
            src = self.overlay[rel]
        else:
            path = self.root / rel
            if not path.is_file():
                raise AnalysisError('file %s not found (anchor vanished)' % rel)
            src = path.read_text(encoding='utf8')
        if rel not in self.files:
            self.files.append(rel)
        return src

    def cls(self, qual: str) -> ClassInfo:
        try:
            return self.classes[qual]
        except KeyError:
            raise AnalysisError('class %s not found (anchor vanished)' % qual)

    def func(self, qual: str) -> FuncInfo:
        try:
            return self.functions[qual]
        except KeyError:
            raise AnalysisError('function %s not found (anchor vanished)' % qual)

    def has_func(self, qual: str) -> bool:
        return qual in self.functions

    def resolve_global(self, mod: Module, name: str, _depth: int = 0):
        """What a module-level name denotes: ClassInfo | FuncInfo | Module | ('ext', dotted) | ('const', node) | None."""
        if _depth > 8:
            return None
        if name in mod.classes:
            return mod.classes[name]
        if name in mod.functions:
            return mod.functions[name]
        if name in mod.imports:
            m, attr = mod.imports[name]
            if attr is None:
                if m in self.modules:
                    return self.modules[m]
                return ('ext', m)
            if m in self.modules:
                return self.resolve_global(self.modules[m], attr, _depth + 1) or ('ext', m + '.' + attr)
            return ('ext', m + '.' + attr)
        if name in mod.assigns:
            v = mod.assigns[name][-1]
            if isinstance(v, ast.Name) and v.id != name:
                r = self.resolve_global(mod, v.id, _depth + 1)
                if r is not None:
                    return r
            return ('const', v)
        return None

    def resolve_class_expr(self, mod: Module, e: ast.AST, func: Optional[FuncInfo] = None) -> Optional[ClassInfo]:
        if isinstance(e, ast.Name):
            f = func
            while f is not None:
                if e.id in f.nested_classes:
                    return f.nested_classes[e.id]
                f = f.parent
            r = self.resolve_global(mod, e.id)
            return r if isinstance(r, ClassInfo) else None
        if isinstance(e, ast.Attribute):
            base = None
            if isinstance(e.value, ast.Name):
                base = self.resolve_global(mod, e.value.id)
            if isinstance(base, Module):
                r = self.resolve_global(base, e.attr)
                return r if isinstance(r, ClassInfo) else None
        if isinstance(e, ast.Constant) and isinstance(e.value, str):
            try:
                return self.resolve_class_expr(mod, ast.parse(e.value, mode='eval').body, func)
            except SyntaxError:
                return None
        return None

    def all_functions(self) -> List[FuncInfo]:
        return list(self.functions.values())

    def functions_in(self, module_name: str) -> List[FuncInfo]:
        return [f for f in self.functions.values() if f.module.name == module_name]

    def stats(self) -> dict:
        return {'files': len(self.files), 'modules': len(self.modules), 'classes': len(self.classes),
                'functions': len(self.functions),
                'lines': sum(len(m.lines) for m in self.modules.values())}


# -- small AST helpers shared by the rules ------------------------------------------------------

def is_self_attr(node: ast.AST, self_name: Optional[str] = 'self', attr: Optional[str] = None) -> bool:
    return (isinstance(node, ast.Attribute) and isinstance(node.value, ast.Name)
            and node.value.id == self_name and (attr is None or node.attr == attr))


def attr_chain(node: ast.AST) -> Optional[List[str]]:
    """a.b.c -> ['a','b','c']; None when the root is not a plain name."""
    out = []
    while isinstance(node, ast.Attribute):
        out.append(node.attr)
        node = node.value
    if isinstance(node, ast.Name):
        out.append(node.id)
        return list(reversed(out))
    return None


def call_name(node: ast.Call) -> str:
    f = node.func
    if isinstance(f, ast.Name):
        return f.id
    if isinstance(f, ast.Attribute):
        return f.attr
    return ''


def parent(node: ast.AST) -> Optional[ast.AST]:
    return getattr(node, '_parent', None)


def ancestors(node: ast.AST) -> Iterator[ast.AST]:
    p = parent(node)
    while p is not None:
        yield p
        p = parent(p)


def enclosing_stmt(node: ast.AST) -> ast.AST:
    n = node
    while not isinstance(n, ast.stmt):
        p = parent(n)
        if p is None:
            return n
        n = p
    return n


def walk_no_nested(node: ast.AST) -> Iterator[ast.AST]:
    """ast.walk that does not descend into nested function / class definitions (lambdas are followed)."""
    stack = [node]
    first = True
    while stack:
        n = stack.pop()
        yield n
        for c in ast.iter_child_nodes(n):
            if isinstance(c, (ast.FunctionDef, ast.AsyncFunctionDef, ast.ClassDef)) and not (first and False):
                continue
            stack.append(c)
        first = False


def names_in(node: ast.AST) -> Set[str]:
    return {n.id for n in ast.walk(node) if isinstance(n, ast.Name)}


def const_str(node: ast.AST) -> Optional[str]:
    if isinstance(node, ast.Constant) and isinstance(node.value, str):
        return node.value
    return None


_WS = re.compile(r'\s+')


def squash(s: str) -> str:
    return _WS.sub(' ', s).strip()
