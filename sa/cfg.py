"""Statement-level control-flow graph over the statement kinds the package uses (DESIGN §2.3).

Nodes are statements (compound statements contribute their header: the `if`/`while` test, the `for`
iterator, the `with` items, the `try` marker).  Exceptional edges go from every statement inside a
`try` body that contains a call / subscript / attribute access / raise to the entry of each handler
(and onwards to the enclosing handlers or RAISE when no handler is a catch-all).
"""
from __future__ import annotations

import ast
from typing import Dict, List, Optional, Set, Tuple, Iterable, Callable

ENTRY, EXIT, RAISE = 'ENTRY', 'EXIT', 'RAISE'


class Node:
    __slots__ = ('id', 'stmt', 'kind')

    def __init__(self, id_: int, stmt: Optional[ast.AST], kind: str):
        self.id = id_
        self.stmt = stmt
        self.kind = kind    # ENTRY EXIT RAISE stmt test loop with try handler

    def __repr__(self):
        ln = getattr(self.stmt, 'lineno', '')
        return '<%d %s %s>' % (self.id, self.kind, ln)


_CATCH_ALL = {'Exception', 'BaseException'}


def _may_raise(stmt: ast.AST) -> bool:
    if isinstance(stmt, (ast.Raise, ast.Assert)):
        return True
    for n in ast.walk(stmt):
        if isinstance(n, (ast.Call, ast.Subscript, ast.Attribute, ast.BinOp, ast.Yield, ast.YieldFrom, ast.Await)):
            return True
    return False


def _header_exprs(stmt: ast.AST) -> List[ast.AST]:
    """The expressions evaluated by the node that represents `stmt` (not its nested blocks)."""
    if isinstance(stmt, (ast.If, ast.While)):
        return [stmt.test]
    if isinstance(stmt, (ast.For, ast.AsyncFor)):
        return [stmt.iter, stmt.target]
    if isinstance(stmt, (ast.With, ast.AsyncWith)):
        out = []
        for it in stmt.items:
            out.append(it.context_expr)
            if it.optional_vars is not None:
                out.append(it.optional_vars)
        return out
    if isinstance(stmt, ast.Try):
        return []
    if isinstance(stmt, ast.ExceptHandler):
        return [stmt.type] if stmt.type is not None else []
    if isinstance(stmt, (ast.FunctionDef, ast.AsyncFunctionDef, ast.ClassDef)):
        return list(stmt.decorator_list)
    return [stmt]


class CFG:
    def __init__(self, func_node: ast.AST):
        self.nodes: List[Node] = []
        self.succ: Dict[int, List[int]] = {}
        self.pred: Dict[int, List[int]] = {}
        self.label: Dict[Tuple[int, int], str] = {}
        self.of_stmt: Dict[int, int] = {}           # id(ast stmt) -> node id
        self.entry = self._new(None, ENTRY)
        self.exit = self._new(None, EXIT)
        self.raise_exit = self._new(None, RAISE)
        self._loops: List[Tuple[int, List[int]]] = []         # (head, break-sources)
        self._tries: List[List[Tuple[int, bool]]] = []         # stack of handler entry lists (node, catch_all)
        body = func_node.body if not isinstance(func_node, ast.Lambda) else [ast.Expr(func_node.body)]
        outs = self._block(body, [self.entry])
        for o in outs:
            self._edge(o, self.exit)
        self._dom: Optional[Dict[int, Set[int]]] = None

    # -- construction ----------------------------------------------------------------------
    def _new(self, stmt, kind) -> int:
        n = Node(len(self.nodes), stmt, kind)
        self.nodes.append(n)
        self.succ[n.id] = []
        self.pred[n.id] = []
        if stmt is not None:
            self.of_stmt.setdefault(id(stmt), n.id)
        return n.id

    def _edge(self, a: int, b: int, label: str = ''):
        if b not in self.succ[a]:
            self.succ[a].append(b)
            self.pred[b].append(a)
        if label:
            self.label[(a, b)] = label

    def _exc_edges(self, a: int):
        """Exceptional successors of node a given the current try stack."""
        for handlers in reversed(self._tries):
            for h, _ in handlers:
                self._edge(a, h, 'exc')
            if any(ca for _, ca in handlers):
                return
        self._edge(a, self.raise_exit, 'exc')

    def _block(self, stmts: List[ast.stmt], preds: List[int]) -> List[int]:
        cur = list(preds)
        for s in stmts:
            cur = self._stmt(s, cur)
        return cur

    def _link(self, preds: Iterable[int], n: int, label: str = ''):
        for p in preds:
            self._edge(p, n, self.label.pop(('pending', p), '') if False else label)

    def _stmt(self, s: ast.stmt, preds: List[int]) -> List[int]:
        if isinstance(s, ast.If):
            n = self._new(s, 'test')
            self._link(preds, n)
            if _may_raise(s.test):
                self._exc_edges(n)
            t_in = self._new(None, 'join')
            self._edge(n, t_in, 'true')
            f_in = self._new(None, 'join')
            self._edge(n, f_in, 'false')
            outs = self._block(s.body, [t_in])
            outs += self._block(s.orelse, [f_in])
            return outs
        if isinstance(s, (ast.While, ast.For, ast.AsyncFor)):
            n = self._new(s, 'loop')
            self._link(preds, n)
            if _may_raise(s.test if isinstance(s, ast.While) else s.iter):
                self._exc_edges(n)
            body_in = self._new(None, 'join')
            self._edge(n, body_in, 'true')
            self._loops.append((n, []))
            outs = self._block(s.body, [body_in])
            for o in outs:
                self._edge(o, n)
            _, breaks = self._loops.pop()
            infinite = isinstance(s, ast.While) and isinstance(s.test, ast.Constant) and bool(s.test.value)
            exits: List[int] = []
            if not infinite:
                e_in = self._new(None, 'join')
                self._edge(n, e_in, 'false')
                exits = self._block(s.orelse, [e_in])
            return exits + breaks
        if isinstance(s, (ast.With, ast.AsyncWith)):
            n = self._new(s, 'with')
            self._link(preds, n)
            self._exc_edges(n)
            return self._block(s.body, [n])
        if isinstance(s, ast.Try):
            n = self._new(s, 'try')
            self._link(preds, n)
            handlers = []
            for h in s.handlers:
                hn = self._new(h, 'handler')
                names = set()
                if h.type is None:
                    ca = True
                else:
                    for te in (h.type.elts if isinstance(h.type, ast.Tuple) else [h.type]):
                        if isinstance(te, ast.Name):
                            names.add(te.id)
                        elif isinstance(te, ast.Attribute):
                            names.add(te.attr)
                    ca = bool(names & _CATCH_ALL)
                handlers.append((hn, ca))
            fin_in = None
            if s.finalbody:
                fin_in = self._new(None, 'join')
                # exceptions escaping the whole statement pass through finally
                self._tries.append([(fin_in, True)])
            self._tries.append(handlers)
            outs = self._block(s.body, [n])
            self._tries.pop()
            outs = self._block(s.orelse, outs)
            for (hn, _), h in zip(handlers, s.handlers):
                outs += self._block(h.body, [hn])
            if s.finalbody:
                self._tries.pop()
                for o in outs:
                    self._edge(o, fin_in)
                fouts = self._block(s.finalbody, [fin_in])
                for o in fouts:        # re-raise after finally (approximation: always possible)
                    self._exc_edges(o)
                return fouts
            return outs
        if isinstance(s, (ast.FunctionDef, ast.AsyncFunctionDef, ast.ClassDef)):
            n = self._new(s, 'stmt')
            self._link(preds, n)
            return [n]
        # simple statements
        n = self._new(s, 'stmt')
        self._link(preds, n)
        if isinstance(s, ast.Return):
            if s.value is not None and _may_raise(s.value) and self._tries:
                self._exc_edges(n)
            # a return inside try/finally passes through finally: approximated by direct exit
            self._edge(n, self.exit)
            return []
        if isinstance(s, ast.Raise):
            self._exc_edges(n)
            return []
        if isinstance(s, ast.Break):
            if self._loops:
                self._loops[-1][1].append(n)
            return []
        if isinstance(s, ast.Continue):
            if self._loops:
                self._edge(n, self._loops[-1][0])
            return []
        if self._tries and _may_raise(s):
            self._exc_edges(n)
        elif isinstance(s, ast.Assert):
            self._exc_edges(n)
        return [n]

    # -- queries ---------------------------------------------------------------------------
    def node_of(self, stmt: ast.AST) -> Optional[int]:
        return self.of_stmt.get(id(stmt))

    def stmt_nodes(self) -> List[Node]:
        return [n for n in self.nodes if n.stmt is not None]

    def reachable(self, start: Iterable[int], avoid: Iterable[int] = (), skip_exc: bool = False) -> Set[int]:
        avoid = set(avoid)
        seen: Set[int] = set()
        work = [s for s in start if s not in avoid]
        while work:
            a = work.pop()
            if a in seen:
                continue
            seen.add(a)
            for b in self.succ[a]:
                if b in avoid or b in seen:
                    continue
                if skip_exc and self.label.get((a, b)) == 'exc':
                    continue
                work.append(b)
        return seen

    def must_pass(self, start: int, through: Iterable[int], ends: Iterable[int], skip_exc: bool = False) -> bool:
        """Every path from `start` to any node in `ends` meets a node in `through`."""
        through = set(through)
        if start in through:
            return True
        r = self.reachable([start], avoid=through, skip_exc=skip_exc)
        return not (r & set(ends))

    def dominators(self) -> Dict[int, Set[int]]:
        if self._dom is not None:
            return self._dom
        alln = set(self.reachable([self.entry]))
        dom = {n: set(alln) for n in alln}
        dom[self.entry] = {self.entry}
        changed = True
        order = sorted(alln)
        while changed:
            changed = False
            for n in order:
                if n == self.entry:
                    continue
                ps = [p for p in self.pred[n] if p in alln]
                if not ps:
                    continue
                new = set.intersection(*(dom[p] for p in ps)) | {n}
                if new != dom[n]:
                    dom[n] = new
                    changed = True
        self._dom = dom
        return dom

    def dominates(self, a: int, b: int) -> bool:
        d = self.dominators()
        return b in d and a in d[b]

    def branch_conditions(self, target: int) -> List[Tuple[ast.AST, bool]]:
        """(test expr, polarity) of every `if`/`while` branch that dominates `target`
        (i.e. target is only reachable through that arm)."""
        out = []
        d = self.dominators().get(target, set())
        for j in d:
            nd = self.nodes[j]
            if nd.kind != 'join':
                continue
            ps = self.pred[j]
            if len(ps) != 1:
                continue
            p = ps[0]
            lab = self.label.get((p, j))
            st = self.nodes[p].stmt
            if lab in ('true', 'false') and isinstance(st, (ast.If, ast.While)):
                out.append((st.test, lab == 'true'))
        return out

    def find(self, pred: Callable[[ast.AST], bool]) -> List[int]:
        """Nodes whose own (header) expressions contain an AST node satisfying pred."""
        out = []
        for n in self.nodes:
            if n.stmt is None:
                continue
            for e in _header_exprs(n.stmt):
                if e is None:
                    continue
                if any(pred(x) for x in _walk_expr(e)):
                    out.append(n.id)
                    break
        return out

    def header_walk(self, nid: int):
        st = self.nodes[nid].stmt
        if st is None:
            return
        for e in _header_exprs(st):
            if e is not None:
                yield from _walk_expr(e)


def _walk_expr(e: ast.AST):
    """Walk an expression/simple statement without entering nested function bodies (lambdas included:
    they do not run here)."""
    stack = [e]
    while stack:
        n = stack.pop()
        yield n
        for c in ast.iter_child_nodes(n):
            if isinstance(c, (ast.FunctionDef, ast.AsyncFunctionDef, ast.ClassDef, ast.Lambda)):
                continue
            stack.append(c)


_cfg_cache: Dict[int, CFG] = {}


def cfg_of(func_node: ast.AST) -> CFG:
    c = _cfg_cache.get(id(func_node))
    if c is None:
        c = CFG(func_node)
        _cfg_cache[id(func_node)] = c
    return c
